// counterexample for harness c04p::c04_port_r1_absent_then_present (property C04), produced by CBMC from /repo at 3c8e3fa
// failing checks: assertion failed: !bit(&fo.validity, 0, 2)
// module: c04p
/// Test generated for harness `c04p::c04_port_r1_absent_then_present` 
///
/// Check for `assertion`: "assertion failed: !bit(&fo.validity, 0, 2)"
///
/// # Warning
///
/// Concrete playback tests combined with stubs or contracts is highly
/// experimental, and subject to change.
///
/// The original harness has stubs which are not applied to this test.
/// This may cause a mismatch of non-deterministic values if the stub
/// creates any non-deterministic value.
/// The execution path may also differ, which can be used to refine the stub
/// logic.

#[test]
fn kani_concrete_playback_c04_port_r1_absent_then_present_2696655368106868043() {
    let concrete_vals: Vec<Vec<u8>> = vec![
        // 0
        vec![0],
        // 0
        vec![0],
        // 0
        vec![0],
        // 0
        vec![0],
        // 0
        vec![0],
        // 0
        vec![0],
        // 0
        vec![0],
        // 0
        vec![0],
        // 0
        vec![0],
        // 0
        vec![0],
        // 0
        vec![0],
        // 0
        vec![0],
        // 0
        vec![0],
        // 0
        vec![0],
        // 0
        vec![0],
        // 0
        vec![0],
        // 0
        vec![0],
        // 0
        vec![0],
        // 0
        vec![0],
        // 0
        vec![0],
        // 0
        vec![0],
        // 0
        vec![0],
        // 0
        vec![0],
        // 0
        vec![0],
        // 0
        vec![0],
        // 0
        vec![0],
        // 0
        vec![0],
        // 0
        vec![0],
        // 0
        vec![0],
        // 0
        vec![0],
        // 0
        vec![0],
        // 0
        vec![0],
        // 0
        vec![0],
        // 0
        vec![0],
        // 0
        vec![0],
        // 0
        vec![0],
        // 0
        vec![0],
        // 0
        vec![0],
        // 0
        vec![0],
        // 0
        vec![0],
        // 0
        vec![0],
        // 0
        vec![0],
        // 0
        vec![0],
        // 0
        vec![0],
        // 0
        vec![0],
        // 0
        vec![0],
        // 0
        vec![0],
        // 0
        vec![0],
        // 0
        vec![0],
        // 0
        vec![0],
        // 0
        vec![0],
        // 0
        vec![0],
        // 0
        vec![0],
        // 0
        vec![0],
        // 0
        vec![0],
        // 0
        vec![0],
        // 0
        vec![0],
        // 0
        vec![0],
        // 0
        vec![0],
        // 0
        vec![0],
        // 0
        vec![0],
        // 0
        vec![0],
        // 0
        vec![0],
        // 0
        vec![0],
        // 0
        vec![0],
        // 0
        vec![0],
        // 0
        vec![0],
        // 0
        vec![0],
        // 0
        vec![0],
        // 0
        vec![0],
        // 0
        vec![0],
        // 0
        vec![0],
        // 0
        vec![0],
        // 0
        vec![0],
        // 0
        vec![0],
        // 0
        vec![0],
        // 0
        vec![0],
        // 0
        vec![0],
        // 0
        vec![0],
        // 0
        vec![0],
        // 0
        vec![0],
        // 0
        vec![0],
        // 0
        vec![0],
        // 0
        vec![0],
        // 0
        vec![0],
        // 0
        vec![0],
        // 0
        vec![0],
        // 0
        vec![0],
        // 0
        vec![0],
        // 0
        vec![0],
        // 0
        vec![0],
        // 0
        vec![0],
        // 0
        vec![0],
        // 0
        vec![0],
        // 0
        vec![0],
        // 0
        vec![0],
        // 0
        vec![0],
        // 0
        vec![0],
        // 0
        vec![0],
        // 0
        vec![0],
        // 0
        vec![0],
        // 0
        vec![0],
        // 0
        vec![0],
        // 0
        vec![0],
        // 0
        vec![0],
        // 0
        vec![0],
        // 0
        vec![0],
        // 0
        vec![0],
        // 0
        vec![0],
        // 0
        vec![0],
        // 0
        vec![0],
        // 0
        vec![0],
        // 0
        vec![0],
        // 0
        vec![0],
        // 0
        vec![0],
        // 0
        vec![0],
        // 0
        vec![0],
        // 0
        vec![0],
        // 0
        vec![0],
        // 0
        vec![0],
        // 0
        vec![0],
        // 0
        vec![0],
        // 0
        vec![0],
        // 0
        vec![0],
        // 0
        vec![0],
        // 0
        vec![0],
        // 0
        vec![0],
        // 0
        vec![0],
        // 0
        vec![0],
        // 0
        vec![0],
        // 0
        vec![0],
        // 0
        vec![0],
        // 0
        vec![0],
        // 0
        vec![0],
        // 0
        vec![0],
        // 0
        vec![0],
        // 0
        vec![0],
        // 0
        vec![0],
        // 0
        vec![0],
        // 0
        vec![0],
        // 0
        vec![0],
        // 0
        vec![0],
        // 0
        vec![0],
        // 0
        vec![0],
        // 0
        vec![0],
        // 0
        vec![0],
        // 0
        vec![0],
        // 0
        vec![0],
        // 0
        vec![0],
        // 0
        vec![0],
        // 0
        vec![0],
        // 0
        vec![0],
        // 0
        vec![0],
        // 0
        vec![0],
        // 0
        vec![0],
        // 0
        vec![0],
        // 0
        vec![0],
        // 0
        vec![0],
        // 0
        vec![0],
        // 0
        vec![0],
        // 0
        vec![0],
        // 0
        vec![0],
        // 0
        vec![0],
        // 0
        vec![0],
        // 0
        vec![0],
        // 0
        vec![0],
        // 0
        vec![0],
        // 0
        vec![0],
        // 0
        vec![0],
        // 0
        vec![0],
        // 0
        vec![0],
        // 0
        vec![0],
        // 0
        vec![0],
        // 0
        vec![0],
        // 0
        vec![0],
        // 0
        vec![0],
        // 0
        vec![0],
        // 0
        vec![0],
        // 0
        vec![0],
        // 0
        vec![0],
        // 0
        vec![0],
        // 0
        vec![0],
        // 0
        vec![0],
        // 0
        vec![0],
        // 0
        vec![0],
        // 0
        vec![0],
        // 0
        vec![0],
        // 0
        vec![0],
        // 0
        vec![0],
        // 0
        vec![0],
        // 0
        vec![0],
        // 0
        vec![0],
        // 0
        vec![0],
        // 0
        vec![0],
        // 0
        vec![0],
        // 0
        vec![0],
        // 0
        vec![0],
        // 0
        vec![0],
        // 0
        vec![0],
        // 0
        vec![0],
        // 0
        vec![0],
        // 0
        vec![0],
        // 0
        vec![0],
        // 0
        vec![0],
        // 0
        vec![0],
        // 0
        vec![0],
        // 0
        vec![0],
        // 0
        vec![0],
        // 0
        vec![0],
        // 0
        vec![0],
        // 0
        vec![0],
        // 0
        vec![0],
        // 0
        vec![0],
        // 0
        vec![0],
        // 0
        vec![0],
        // 0
        vec![0],
        // 0
        vec![0],
        // 0
        vec![0],
        // 0
        vec![0],
        // 0
        vec![0],
        // 0
        vec![0],
        // 0
        vec![0],
        // 0
        vec![0],
        // 0
        vec![0],
        // 0
        vec![0],
        // 0
        vec![0],
        // 0
        vec![0],
        // 0
        vec![0],
        // 0
        vec![0],
        // 0
        vec![0],
        // 0
        vec![0],
        // 0
        vec![0],
        // 0
        vec![0],
        // 0
        vec![0],
        // 0
        vec![0],
        // 0
        vec![0],
        // 0
        vec![0],
        // 0
        vec![0],
        // 0
        vec![0],
        // 0
        vec![0],
        // 0
        vec![0],
        // 0
        vec![0],
        // 0
        vec![0],
        // 0
        vec![0],
        // 0
        vec![0],
        // 0
        vec![0],
        // 0
        vec![0],
        // 0
        vec![0],
        // 0
        vec![0],
        // 0
        vec![0],
        // 0
        vec![0],
        // 0
        vec![0],
        // 0
        vec![0],
        // 0
        vec![0],
        // 0
        vec![0],
        // 0
        vec![0],
        // 0
        vec![0],
        // 0
        vec![0],
        // 0
        vec![0],
        // 0
        vec![0],
        // 0
        vec![0],
        // 0
        vec![0],
        // 0
        vec![0],
        // 0
        vec![0],
        // 0
        vec![0],
        // 0
        vec![0],
        // 0
        vec![0],
        // 0
        vec![0],
        // 0
        vec![0],
        // 0
        vec![0],
        // 0
        vec![0],
        // 0
        vec![0],
        // 0
        vec![0],
        // 0
        vec![0],
        // 0
        vec![0],
        // 0
        vec![0],
        // 0
        vec![0],
        // 0
        vec![0],
        // 0
        vec![0],
    ];
    kani::concrete_playback_run(concrete_vals, c04_port_r1_absent_then_present);
}
