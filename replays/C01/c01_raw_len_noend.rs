// counterexample for harness c01::c01_raw_len_noend (property C01), produced by CBMC from /repo at 938740f
// failing checks: assertion failed: declared == actual_raw
// module: c01
/// Test generated for harness `c01::c01_raw_len_noend` 
///
/// Check for `assertion`: "assertion failed: declared == actual_raw"
///
/// # Warning
///
/// Concrete playback tests combined with stubs or contracts is highly
/// experimental, and subject to change.
///
/// The original harness has stubs which are not applied to this test.
/// This may cause a mismatch of non-deterministic values if the stub
/// creates any non-deterministic value.
/// The execution path may also differ, which can be used to refine the stub
/// logic.

#[test]
fn kani_concrete_playback_c01_raw_len_noend_8725549711309353826() {
    let concrete_vals: Vec<Vec<u8>> = vec![
        // -1
        vec![255, 255, 255, 255],
        // 255
        vec![255],
        // 255
        vec![255],
        // 255
        vec![255],
        // 255
        vec![255],
        // 255
        vec![255],
        // 255
        vec![255],
        // 255
        vec![255],
        // 255
        vec![255],
        // 255
        vec![255],
        // 255
        vec![255],
        // 255
        vec![255],
        // 255
        vec![255],
        // 255
        vec![255],
        // 255
        vec![255],
        // 255
        vec![255],
        // 255
        vec![255],
        // 255
        vec![255],
        // 255
        vec![255],
        // 255
        vec![255],
        // 255
        vec![255],
        // 255
        vec![255],
        // 255
        vec![255],
    ];
    kani::concrete_playback_run(concrete_vals, c01_raw_len_noend);
}
