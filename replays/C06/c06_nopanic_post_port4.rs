// counterexample for harness c04p::c06_nopanic_post_port4 (property C06), produced by CBMC from /repo at 1c258ee
// failing checks: assertion failed: id == state.last_id().unwrap(); index out of bounds: the length is less than or equal to the given index
// module: c04p
/// Test generated for harness `c04p::c06_nopanic_post_port4` 
///
/// Check for `assertion`: "assertion failed: id == state.last_id().unwrap()"
///
/// # Warning
///
/// Concrete playback tests combined with stubs or contracts is highly
/// experimental, and subject to change.
///
/// The original harness has stubs which are not applied to this test.
/// This may cause a mismatch of non-deterministic values if the stub
/// creates any non-deterministic value.
/// The execution path may also differ, which can be used to refine the stub
/// logic.

#[test]
fn kani_concrete_playback_c06_nopanic_post_port4_8535829129986116869() {
    let concrete_vals: Vec<Vec<u8>> = vec![
        // 0
        vec![0, 0, 0, 0],
        // 0
        vec![0],
        // 0
        vec![0],
        // 0
        vec![0],
        // 0
        vec![0],
        // 0
        vec![0],
        // 0
        vec![0],
        // 0
        vec![0],
        // 0
        vec![0],
        // 0
        vec![0],
        // 0
        vec![0],
        // 0
        vec![0],
        // 0
        vec![0],
        // 0
        vec![0],
        // 0
        vec![0],
        // 0
        vec![0],
        // 0
        vec![0],
        // 0
        vec![0],
        // 128
        vec![128],
        // 0
        vec![0],
        // 0
        vec![0],
        // 0
        vec![0],
        // 0
        vec![0],
        // 0
        vec![0],
        // 0
        vec![0],
        // 0
        vec![0],
        // 0
        vec![0],
        // 0
        vec![0],
        // 0
        vec![0],
        // 0
        vec![0],
        // 0
        vec![0],
        // 0
        vec![0],
        // 0
        vec![0],
        // 0
        vec![0],
        // 0
        vec![0],
        // 0
        vec![0],
        // 0
        vec![0],
        // 0
        vec![0],
        // 0
        vec![0],
        // 0
        vec![0],
        // 0
        vec![0],
        // 0
        vec![0],
        // 0
        vec![0],
        // 0
        vec![0],
        // 0
        vec![0],
        // 0
        vec![0],
        // 0
        vec![0],
        // 0
        vec![0],
        // 0
        vec![0],
        // 0
        vec![0],
        // 0
        vec![0],
        // 0
        vec![0],
        // 0
        vec![0],
        // 0
        vec![0],
        // 0
        vec![0],
        // 0
        vec![0],
        // 0
        vec![0],
        // 0
        vec![0],
        // 0
        vec![0],
        // 0
        vec![0],
        // 0
        vec![0],
        // 0
        vec![0],
        // 0
        vec![0],
        // 0
        vec![0],
        // 0
        vec![0],
        // 0
        vec![0],
        // 0
        vec![0],
        // 0
        vec![0],
        // 0
        vec![0],
        // 0
        vec![0],
        // 0
        vec![0],
        // 0
        vec![0],
        // 0
        vec![0],
        // 0
        vec![0],
        // 0
        vec![0],
        // 0
        vec![0],
        // 0
        vec![0],
        // 0
        vec![0],
        // 0
        vec![0],
        // 0
        vec![0],
        // 0
        vec![0],
        // 0
        vec![0],
        // 0
        vec![0],
        // 0
        vec![0],
        // 0
        vec![0],
        // 0
        vec![0],
        // 0
        vec![0],
        // 0
        vec![0],
        // 0
        vec![0],
        // 0
        vec![0],
        // 0
        vec![0],
        // 0
        vec![0],
        // 0
        vec![0],
        // 0
        vec![0],
        // 0
        vec![0],
        // 0
        vec![0],
        // 0
        vec![0],
        // 0
        vec![0],
        // 0
        vec![0],
    ];
    kani::concrete_playback_run(concrete_vals, c06_nopanic_post_port4);
}

/// Test generated for harness `c04p::c06_nopanic_post_port4` 
///
/// Check for `assertion`: "index out of bounds: the length is less than or equal to the given index"
///
/// # Warning
///
/// Concrete playback tests combined with stubs or contracts is highly
/// experimental, and subject to change.
///
/// The original harness has stubs which are not applied to this test.
/// This may cause a mismatch of non-deterministic values if the stub
/// creates any non-deterministic value.
/// The execution path may also differ, which can be used to refine the stub
/// logic.

#[test]
fn kani_concrete_playback_c06_nopanic_post_port4_13170570944653836107() {
    let concrete_vals: Vec<Vec<u8>> = vec![
        // 0
        vec![0, 0, 0, 0],
        // 0
        vec![0],
        // 0
        vec![0],
        // 0
        vec![0],
        // 0
        vec![0],
        // 0
        vec![0],
        // 0
        vec![0],
        // 0
        vec![0],
        // 0
        vec![0],
        // 0
        vec![0],
        // 0
        vec![0],
        // 0
        vec![0],
        // 0
        vec![0],
        // 0
        vec![0],
        // 0
        vec![0],
        // 0
        vec![0],
        // 0
        vec![0],
        // 0
        vec![0],
        // 0
        vec![0],
        // 0
        vec![0],
        // 0
        vec![0],
        // 0
        vec![0],
        // 0
        vec![0],
        // 0
        vec![0],
        // 0
        vec![0],
        // 0
        vec![0],
        // 0
        vec![0],
        // 0
        vec![0],
        // 0
        vec![0],
        // 0
        vec![0],
        // 0
        vec![0],
        // 0
        vec![0],
        // 0
        vec![0],
        // 0
        vec![0],
        // 0
        vec![0],
        // 0
        vec![0],
        // 0
        vec![0],
        // 0
        vec![0],
        // 0
        vec![0],
        // 0
        vec![0],
        // 0
        vec![0],
        // 0
        vec![0],
        // 0
        vec![0],
        // 0
        vec![0],
        // 0
        vec![0],
        // 0
        vec![0],
        // 0
        vec![0],
        // 0
        vec![0],
        // 0
        vec![0],
        // 0
        vec![0],
        // 0
        vec![0],
        // 0
        vec![0],
        // 0
        vec![0],
        // 0
        vec![0],
        // 0
        vec![0],
        // 0
        vec![0],
        // 0
        vec![0],
        // 0
        vec![0],
        // 0
        vec![0],
        // 0
        vec![0],
        // 0
        vec![0],
        // 0
        vec![0],
        // 0
        vec![0],
        // 0
        vec![0],
        // 0
        vec![0],
        // 0
        vec![0],
        // 0
        vec![0],
        // 0
        vec![0],
        // 0
        vec![0],
        // 0
        vec![0],
        // 0
        vec![0],
        // 0
        vec![0],
        // 0
        vec![0],
        // 0
        vec![0],
        // 0
        vec![0],
        // 0
        vec![0],
        // 0
        vec![0],
        // 0
        vec![0],
        // 0
        vec![0],
        // 0
        vec![0],
        // 0
        vec![0],
        // 0
        vec![0],
        // 0
        vec![0],
        // 0
        vec![0],
        // 0
        vec![0],
        // 0
        vec![0],
        // 0
        vec![0],
        // 0
        vec![0],
        // 0
        vec![0],
        // 0
        vec![0],
        // 0
        vec![0],
        // 0
        vec![0],
        // 0
        vec![0],
        // 0
        vec![0],
        // 0
        vec![0],
        // 0
        vec![0],
        // 0
        vec![0],
        // 0
        vec![0],
        // 0
        vec![0],
    ];
    kani::concrete_playback_run(concrete_vals, c06_nopanic_post_port4);
}
