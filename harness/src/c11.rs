//! C11 – the hash covers exactly the bytes read, however the stream fragments them.
use crate::util::*;
use core::mem::forget;
use peppi::io::verif::VerifHashingReader;
use std::io::{Read, Seek, SeekFrom};
use xxhash_rust::xxh3::Xxh3;

pub const LOGCAP: usize = 16;
pub static mut LOG: [u8; LOGCAP] = [0; LOGCAP];
pub static mut LOG_N: usize = 0;
pub static mut LOG_OVERFLOW: bool = false;

/// Recorder standing in for `Xxh3::update`: XXH3's streaming contract is
/// "digest = f(concatenation of all updates)", so the concatenation is what is checked.
pub fn update_rec(_h: &mut Xxh3, input: &[u8]) {
	unsafe {
		let mut i = 0;
		while i < input.len() {
			if LOG_N < LOGCAP {
				LOG[LOG_N] = input[i];
				LOG_N += 1;
			} else {
				LOG_OVERFLOW = true;
			}
			i += 1;
		}
	}
}

/// A stream that satisfies each `read` with a nondeterministic number of bytes (1..=want).
pub struct Frag<'a> {
	pub data: &'a [u8],
	pub pos: usize,
}

impl<'a> Read for Frag<'a> {
	fn read(&mut self, buf: &mut [u8]) -> std::io::Result<usize> {
		let avail = self.data.len() - self.pos;
		let want = if buf.len() < avail { buf.len() } else { avail };
		if want == 0 {
			return Ok(0);
		}
		let n: usize = kani::any();
		kani::assume(n >= 1 && n <= want);
		let mut i = 0;
		while i < n {
			buf[i] = self.data[self.pos + i];
			i += 1;
		}
		self.pos += n;
		Ok(n)
	}
}

// @verif property=C11 tier=quick mem=12 timeout=1500
// @encodes peppi::io::HashingReader::{new, read} (through Read::read_exact), hashing on
// @symbolic 110 8 data bytes; sizes of two read_exact calls; how many bytes every underlying read returns
// @bound 8 bytes of stream, 2 read_exact calls, every fragmentation into short reads
// @stub xxhash_rust::xxh3::Xxh3::update = recorder appending its input to a log (XXH3 itself is trusted: streaming contract)
// @replay twin=c11_twin_native
#[kani::proof]
#[kani::unwind(10)]
#[kani::stub(xxhash_rust::xxh3::Xxh3::update, update_rec)]
fn c11_hr_feeds_exactly() {
	let data: [u8; 8] = kani::any();
	unsafe {
		LOG_N = 0;
		LOG_OVERFLOW = false;
	}
	let mut hr = VerifHashingReader::new(Frag { data: &data, pos: 0 }, true);
	let a: usize = kani::any();
	let b: usize = kani::any();
	kani::assume(a <= 8 && b <= 8);
	let mut buf = [0u8; 8];
	let mut consumed = 0;
	let r1 = hr.read_exact(&mut buf[..a]);
	if r1.is_ok() {
		consumed += a;
		let mut buf2 = [0u8; 8];
		let r2 = hr.read_exact(&mut buf2[..b]);
		if r2.is_ok() {
			consumed += b;
			kani::cover!(a > 1 && b > 1, "two multi-byte reads");
		} else {
			// a failed read_exact consumed whatever was left
			consumed = 8;
			assert!(a + b > 8);
		}
		forget(r2);
	} else {
		assert!(false); // a <= 8 bytes are always available for the first call
	}
	unsafe {
		// the hasher saw exactly the bytes the reader handed out: same count, same order, same values
		assert!(!LOG_OVERFLOW);
		assert!(LOG_N == consumed);
		let i: usize = kani::any();
		kani::assume(i < LOG_N);
		assert!(LOG[i] == data[i]);
	}
	let j: usize = kani::any();
	kani::assume(j < a);
	assert!(buf[j] == data[j]);
	assert!(hr.hashing());
	kani::cover!(consumed == 8, "whole stream");
	forget(r1);
	forget(hr);
}

// @verif property=C11 tier=quick mem=12 timeout=1200
// @encodes peppi::io::HashingReader::{new, read, into_digest} with hashing off
// @symbolic 70 8 data bytes; read size; fragmentation
// @bound 8 bytes, one read_exact
// @stub xxhash_rust::xxh3::Xxh3::update = recorder
#[kani::proof]
#[kani::unwind(10)]
#[kani::stub(xxhash_rust::xxh3::Xxh3::update, update_rec)]
fn c11_hr_off() {
	let data: [u8; 8] = kani::any();
	unsafe { LOG_N = 0 };
	let mut hr = VerifHashingReader::new(Frag { data: &data, pos: 0 }, false);
	let a: usize = kani::any();
	kani::assume(a <= 8);
	let mut buf = [0u8; 8];
	let r1 = hr.read_exact(&mut buf[..a]);
	assert!(r1.is_ok());
	unsafe { assert!(LOG_N == 0) };
	assert!(!hr.hashing());
	let d = hr.into_digest();
	assert!(d.is_none());
	kani::cover!(a == 8, "read everything");
	forget(r1);
	forget(d);
}

/// Minimal seekable stream over a slice with a plain integer position.
pub struct SliceRS<'a> {
	pub data: &'a [u8],
	pub pos: usize,
}

impl<'a> Read for SliceRS<'a> {
	fn read(&mut self, buf: &mut [u8]) -> std::io::Result<usize> {
		let avail = self.data.len() - self.pos;
		let n = if buf.len() < avail { buf.len() } else { avail };
		buf[..n].copy_from_slice(&self.data[self.pos..self.pos + n]);
		self.pos += n;
		Ok(n)
	}
}

impl<'a> Seek for SliceRS<'a> {
	fn seek(&mut self, pos: SeekFrom) -> std::io::Result<u64> {
		match pos {
			SeekFrom::Current(d) => {
				let np = self.pos as i64 + d;
				if np < 0 || np as usize > self.data.len() {
					return Err(std::io::Error::from(std::io::ErrorKind::InvalidInput));
				}
				self.pos = np as usize;
			}
			SeekFrom::Start(p) => self.pos = p as usize,
			SeekFrom::End(d) => self.pos = (self.data.len() as i64 + d) as usize,
		}
		Ok(self.pos as u64)
	}
}

// @verif property=C11 tier=quick mem=12 timeout=1200
// @encodes peppi::io::HashingReader::{seek, into_digest}: seeking disables the hash
// @symbolic 72 8 data bytes; seek distance
// @bound 8 bytes; one read, one seek
// @stub xxhash_rust::xxh3::Xxh3::update = recorder
#[kani::proof]
#[kani::unwind(10)]
#[kani::stub(xxhash_rust::xxh3::Xxh3::update, update_rec)]
fn c11_hr_seek_disables() {
	let data: [u8; 8] = kani::any();
	unsafe { LOG_N = 0 };
	let mut hr = VerifHashingReader::new(SliceRS { data: &data, pos: 0 }, true);
	let mut buf = [0u8; 2];
	let r1 = hr.read_exact(&mut buf);
	assert!(r1.is_ok());
	assert!(hr.hashing());
	let d: i64 = kani::any();
	kani::assume(d >= 0 && d <= 6);
	let r2 = hr.seek(SeekFrom::Current(d));
	assert!(r2.is_ok());
	// bytes were skipped without being hashed: no digest may be reported any more
	assert!(!hr.hashing());
	let dig = hr.into_digest();
	assert!(dig.is_none());
	kani::cover!(d == 0, "zero-distance seek");
	kani::cover!(d == 6, "seek to the end");
	forget(r1);
	forget(r2);
	forget(dig);
}

/// `Frag` for native runs: same choice points, values supplied by the replayed counterexample.
/// Native twin of `c11_hr_feeds_exactly` (replay target: the harness's oracle is a stub).
/// Same sequence of kani::any() values, real XXH3: the digest must be the one-shot XXH3-64 of
/// exactly the bytes consumed.
pub fn c11_twin_native() {
	let data: [u8; 8] = kani::any();
	let mut hr = VerifHashingReader::new(Frag { data: &data, pos: 0 }, true);
	let a: usize = kani::any();
	let b: usize = kani::any();
	if a > 8 || b > 8 {
		return;
	}
	let mut buf = [0u8; 8];
	let mut consumed = 0;
	if hr.read_exact(&mut buf[..a]).is_ok() {
		consumed += a;
		let mut buf2 = [0u8; 8];
		if hr.read_exact(&mut buf2[..b]).is_ok() {
			consumed += b;
		} else {
			consumed = 8;
		}
	}
	let want = format!("xxh3:{:016x}", xxhash_rust::xxh3::xxh3_64(&data[..consumed]));
	assert!(hr.into_digest() == Some(want), "digest is not XXH3-64 of the bytes consumed");
}
