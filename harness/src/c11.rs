//! C11 – the hash covers exactly the bytes read, however the stream fragments them.
use crate::util::*;
use core::mem::forget;
use peppi::io::verif::VerifHashingReader;
use std::io::{Read, Seek, SeekFrom};
use xxhash_rust::xxh3::Xxh3;

pub const LOGCAP: usize = 16;
pub static mut LOG: [u8; LOGCAP] = [0; LOGCAP];
pub static mut LOG_N: usize = 0;
pub static mut LOG_OVERFLOW: bool = false;

/// Recorder standing in for `Xxh3::update`: XXH3's streaming contract is
/// "digest = f(concatenation of all updates)", so the concatenation is what is checked.
pub fn update_rec(_h: &mut Xxh3, input: &[u8]) {
	unsafe {
		let mut i = 0;
		while i < input.len() {
			if LOG_N < LOGCAP {
				LOG[LOG_N] = input[i];
				LOG_N += 1;
			} else {
				LOG_OVERFLOW = true;
			}
			i += 1;
		}
	}
}

/// A stream that satisfies each `read` with a nondeterministic number of bytes (1..=want).
pub struct Frag<'a> {
	pub data: &'a [u8],
	pub pos: usize,
}

impl<'a> Read for Frag<'a> {
	fn read(&mut self, buf: &mut [u8]) -> std::io::Result<usize> {
		let avail = self.data.len() - self.pos;
		let want = if buf.len() < avail { buf.len() } else { avail };
		if want == 0 {
			return Ok(0);
		}
		let n: usize = kani::any();
		kani::assume(n >= 1 && n <= want);
		let mut i = 0;
		while i < n {
			buf[i] = self.data[self.pos + i];
			i += 1;
		}
		self.pos += n;
		Ok(n)
	}
}

fn hr_feeds_exactly<const N: usize>() {
	let data: [u8; N] = kani::any();
	unsafe {
		LOG_N = 0;
		LOG_OVERFLOW = false;
	}
	let mut hr = VerifHashingReader::new(Frag { data: &data, pos: 0 }, true);
	let a: usize = kani::any();
	let b: usize = kani::any();
	kani::assume(a <= N && b <= N);
	let mut buf = [0u8; N];
	let mut consumed = 0;
	let r1 = hr.read_exact(&mut buf[..a]);
	if r1.is_ok() {
		consumed += a;
		let mut buf2 = [0u8; N];
		let r2 = hr.read_exact(&mut buf2[..b]);
		if r2.is_ok() {
			consumed += b;
		} else {
			// a failed read_exact consumed whatever was left
			consumed = N;
			assert!(a + b > N);
		}
		forget(r2);
	} else {
		assert!(false); // a <= N bytes are always available for the first call
	}
	unsafe {
		// the hasher saw exactly the bytes the reader handed out: same count, same order, same values
		assert!(!LOG_OVERFLOW);
		assert!(LOG_N == consumed);
		let i: usize = kani::any();
		kani::assume(i < LOG_N);
		assert!(LOG[i] == data[i]);
	}
	let j: usize = kani::any();
	kani::assume(j < a);
	assert!(buf[j] == data[j]);
	assert!(hr.hashing());
	forget(r1);
	forget(hr);
}

// @verif property=C11 tier=quick mem=12 timeout=1500
// @encodes peppi::io::HashingReader::{new, read} (through Read::read_exact), hashing on
// @symbolic 80 5 data bytes; sizes of two read_exact calls; how many bytes every underlying read returns
// @bound 5 bytes of stream, 2 read_exact calls, every fragmentation into short reads
// @stub xxhash_rust::xxh3::Xxh3::update = recorder appending its input to a log (XXH3 itself is trusted: streaming contract)
// @replay twin=c11_twin_native_5
#[kani::proof]
#[kani::unwind(8)]
#[kani::stub(xxhash_rust::xxh3::Xxh3::update, update_rec)]
fn c11_hr_feeds_exactly() {
	hr_feeds_exactly::<5>();
	kani::cover!(unsafe { LOG_N } == 5, "whole stream");
	kani::cover!(unsafe { LOG_N } == 2, "two bytes");
}

// @verif property=C11 tier=thorough mem=12 timeout=2400
// @encodes peppi::io::HashingReader::{new, read} (through Read::read_exact), hashing on
// @symbolic 110 8 data bytes; sizes of two read_exact calls; how many bytes every underlying read returns
// @bound 8 bytes of stream, 2 read_exact calls, every fragmentation into short reads
// @stub xxhash_rust::xxh3::Xxh3::update = recorder appending its input to a log
// @replay twin=c11_twin_native_8
#[kani::proof]
#[kani::unwind(10)]
#[kani::stub(xxhash_rust::xxh3::Xxh3::update, update_rec)]
fn c11_hr_feeds_exactly_8() {
	hr_feeds_exactly::<8>();
	kani::cover!(unsafe { LOG_N } == 8, "whole stream");
}

// @verif property=C11 tier=quick mem=12 timeout=1200
// @encodes peppi::io::HashingReader::{new, read, into_digest} with hashing off
// @symbolic 70 8 data bytes; read size; fragmentation
// @bound 8 bytes, one read_exact
// @stub xxhash_rust::xxh3::Xxh3::update = recorder
#[kani::proof]
#[kani::unwind(10)]
#[kani::stub(xxhash_rust::xxh3::Xxh3::update, update_rec)]
fn c11_hr_off() {
	let data: [u8; 8] = kani::any();
	unsafe { LOG_N = 0 };
	let mut hr = VerifHashingReader::new(Frag { data: &data, pos: 0 }, false);
	let a: usize = kani::any();
	kani::assume(a <= 8);
	let mut buf = [0u8; 8];
	let r1 = hr.read_exact(&mut buf[..a]);
	assert!(r1.is_ok());
	unsafe { assert!(LOG_N == 0) };
	assert!(!hr.hashing());
	let d = hr.into_digest();
	assert!(d.is_none());
	kani::cover!(a == 8, "read everything");
	forget(r1);
	forget(d);
}

/// Minimal seekable stream over a slice with a plain integer position.
pub struct SliceRS<'a> {
	pub data: &'a [u8],
	pub pos: usize,
}

impl<'a> Read for SliceRS<'a> {
	fn read(&mut self, buf: &mut [u8]) -> std::io::Result<usize> {
		let avail = self.data.len() - self.pos;
		let n = if buf.len() < avail { buf.len() } else { avail };
		buf[..n].copy_from_slice(&self.data[self.pos..self.pos + n]);
		self.pos += n;
		Ok(n)
	}
}

impl<'a> Seek for SliceRS<'a> {
	fn seek(&mut self, pos: SeekFrom) -> std::io::Result<u64> {
		match pos {
			SeekFrom::Current(d) => {
				let np = self.pos as i64 + d;
				if np < 0 || np as usize > self.data.len() {
					return Err(std::io::Error::from(std::io::ErrorKind::InvalidInput));
				}
				self.pos = np as usize;
			}
			SeekFrom::Start(p) => self.pos = p as usize,
			SeekFrom::End(d) => self.pos = (self.data.len() as i64 + d) as usize,
		}
		Ok(self.pos as u64)
	}
}

fn seek_disables(d: i64) {
	let data: [u8; 8] = kani::any();
	unsafe { LOG_N = 0 };
	let mut hr = VerifHashingReader::new(SliceRS { data: &data, pos: 0 }, true);
	let mut buf = [0u8; 2];
	let r1 = hr.read_exact(&mut buf);
	assert!(r1.is_ok());
	assert!(hr.hashing());
	let r2 = hr.seek(SeekFrom::Current(d));
	assert!(r2.is_ok());
	// bytes were skipped without being hashed: no digest may be reported any more
	assert!(!hr.hashing());
	let dig = hr.into_digest();
	assert!(dig.is_none());
	forget(r1);
	forget(r2);
	forget(dig);
}

// @verif property=C11 tier=quick mem=12 timeout=1200
// @encodes peppi::io::HashingReader::{seek, into_digest}: seeking disables the hash
// @symbolic 192 8 data bytes per call
// @bound 8 bytes; one read, one seek by 0, 3 and 6 bytes (concrete distances: with a symbolic distance the failing-seek path keeps the hasher alive and drags XXH3's finalisation and core::fmt into the formula - 19 min)
// @stub xxhash_rust::xxh3::Xxh3::update = recorder
// @stub alloc::fmt::format = returns an empty String
#[kani::proof]
#[kani::unwind(10)]
#[kani::stub(xxhash_rust::xxh3::Xxh3::update, update_rec)]
#[kani::stub(alloc::fmt::format, format_stub)]
fn c11_hr_seek_disables() {
	seek_disables(0);
	seek_disables(3);
	seek_disables(6);
	kani::cover!(true, "reached");
}

fn twin_native<const N: usize>() {
	let data: [u8; N] = kani::any();
	let mut hr = VerifHashingReader::new(Frag { data: &data, pos: 0 }, true);
	let a: usize = kani::any();
	let b: usize = kani::any();
	if a > N || b > N {
		return;
	}
	let mut buf = [0u8; N];
	let mut consumed = 0;
	if hr.read_exact(&mut buf[..a]).is_ok() {
		consumed += a;
		let mut buf2 = [0u8; N];
		if hr.read_exact(&mut buf2[..b]).is_ok() {
			consumed += b;
		} else {
			consumed = N;
		}
	}
	let want = format!("xxh3:{:016x}", xxhash_rust::xxh3::xxh3_64(&data[..consumed]));
	assert!(hr.into_digest() == Some(want), "digest is not XXH3-64 of the bytes consumed");
}

pub fn c11_twin_native_5() {
	twin_native::<5>();
}

pub fn c11_twin_native_8() {
	twin_native::<8>();
}
