//! C13 – row views one level above the per-struct ones: `PortData::transpose_one` of both
//! representations (leader / follower / port label), the generated per-struct harnesses being
//! in gen_c13.rs.
use crate::util::*;
use core::mem::forget;
use peppi::frame::immutable;
use peppi::frame::mutable::PortData as MPortData;
use peppi::frame::PortOccupancy;
use peppi::game::Port;
use peppi::io::slippi::Version;

const PRE: usize = 52;
const POST: usize = 27;

fn fill(pd: &mut MPortData, v: Version, pre_l: &[u8; PRE], post_l: &[u8; POST], pre_f: &[u8; PRE], post_f: &[u8; POST]) {
	let r = pd.leader.pre.read_push(&mut &pre_l[..], v);
	assert!(r.is_ok());
	forget(r);
	let r = pd.leader.post.read_push(&mut &post_l[..], v);
	assert!(r.is_ok());
	forget(r);
	match pd.follower.as_mut() {
		Some(fo) => {
			let r = fo.pre.read_push(&mut &pre_f[..], v);
			assert!(r.is_ok());
			forget(r);
			let r = fo.post.read_push(&mut &post_f[..], v);
			assert!(r.is_ok());
			forget(r);
		}
		None => assert!(false),
	}
}

fn seed(b: &[u8; PRE]) -> u32 {
	u32::from_be_bytes([b[0], b[1], b[2], b[3]])
}

// @verif property=C13 tier=quick mem=12 timeout=1800
// @encodes peppi::frame::immutable::PortData::transpose_one, immutable::Data::transpose_one, From<mutable::PortData> (finished representation): leader and follower rows come from their own columns, port label kept
// @symbolic 1264 Pre and Post payloads of both climbers (one row)
// @bound version 0.1.0 (fewest columns), one Ice Climbers port, one row
// @assume columns filled by the real read_push from symbolic payloads; the per-field row views are gen_c13's subject, here one Pre and one Post field per character identify whose columns were used
// @stub alloc::fmt::format = returns an empty String
#[kani::proof]
#[kani::unwind(10)]
#[kani::stub(alloc::fmt::format, format_stub)]
fn c13_imm_portdata_leader_follower() {
	let v = Version(0, 1, 0);
	let pre_l: [u8; PRE] = kani::any();
	let post_l: [u8; POST] = kani::any();
	let pre_f: [u8; PRE] = kani::any();
	let post_f: [u8; POST] = kani::any();
	let mut pd = MPortData::with_capacity(0, v, PortOccupancy { port: Port::P3, follower: true });
	fill(&mut pd, v, &pre_l, &post_l, &pre_f, &post_f);
	let im: immutable::PortData = pd.into();
	let t = im.transpose_one(0, v);
	assert!(t.port == Port::P3);
	assert!(t.leader.pre.random_seed == seed(&pre_l));
	assert!(t.leader.post.character == post_l[0]);
	assert!(t.leader.post.stocks == post_l[26]);
	match &t.follower {
		Some(fo) => {
			assert!(fo.pre.random_seed == seed(&pre_f));
			assert!(fo.post.character == post_f[0]);
			assert!(fo.post.stocks == post_f[26]);
		}
		None => assert!(false),
	}
	kani::cover!(seed(&pre_l) != seed(&pre_f), "climbers differ");
	forget(t);
	forget(im);
}

// @verif property=C13 tier=quick mem=12 timeout=1800
// @encodes peppi::frame::mutable::PortData::transpose_one, mutable::Data::transpose_one (in-progress representation): leader and follower rows come from their own columns, port label kept
// @symbolic 1264 Pre and Post payloads of both climbers (one row)
// @bound version 0.1.0, one Ice Climbers port, one row
// @assume columns filled by the real read_push from symbolic payloads
// @stub alloc::fmt::format = returns an empty String
#[kani::proof]
#[kani::unwind(10)]
#[kani::stub(alloc::fmt::format, format_stub)]
fn c13_mut_portdata_leader_follower() {
	let v = Version(0, 1, 0);
	let pre_l: [u8; PRE] = kani::any();
	let post_l: [u8; POST] = kani::any();
	let pre_f: [u8; PRE] = kani::any();
	let post_f: [u8; POST] = kani::any();
	let mut pd = MPortData::with_capacity(0, v, PortOccupancy { port: Port::P2, follower: true });
	fill(&mut pd, v, &pre_l, &post_l, &pre_f, &post_f);
	let t = pd.transpose_one(0, v);
	assert!(t.port == Port::P2);
	assert!(t.leader.pre.random_seed == seed(&pre_l));
	assert!(t.leader.post.character == post_l[0]);
	match &t.follower {
		Some(fo) => {
			assert!(fo.pre.random_seed == seed(&pre_f));
			assert!(fo.post.character == post_f[0]);
		}
		None => assert!(false),
	}
	kani::cover!(seed(&pre_l) != seed(&pre_f), "climbers differ");
	forget(t);
	forget(pd);
}
