//! Shared pieces of the `parse_event` step harnesses (port-free skeleton and typed-port variant).
use crate::gen_c03::*;
use crate::util::*;
use core::mem::forget;
use core::num::NonZeroU16;
use peppi::frame::mutable::Frame as MFrame;
use peppi::io::slippi::de::verif::PayloadSizes;
use peppi::io::slippi::de::ParseState;
use peppi::io::slippi::Version;
use std::io::Read;

/// Codes the payload table declares although peppi does not know them (C08).
pub const UNKNOWN_A: u8 = 0x40; // 1-byte payload
pub const UNKNOWN_B: u8 = 0x41; // 8-byte payload

/// Payload-size table a well-formed file of version `v` carries (sizes from spec/frame_layout.json
/// and spec/start_layout.json), plus two unknown codes.
pub fn table_for(v: Version) -> PayloadSizes {
	let mut t: PayloadSizes = [None; 256];
	let k = vkey(v);
	t[0x36] = NonZeroU16::new(320);
	t[0x37] = NonZeroU16::new((6 + spec_size_pre(v)) as u16);
	t[0x38] = NonZeroU16::new((6 + spec_size_post(v)) as u16);
	t[0x39] = NonZeroU16::new(if k >= 0x030d {
		6
	} else if k >= 0x0200 {
		2
	} else {
		1
	});
	if k >= 0x0202 {
		t[0x3A] = NonZeroU16::new((4 + spec_size_start(v)) as u16);
	}
	if k >= 0x0300 {
		t[0x3B] = NonZeroU16::new((4 + spec_size_item(v)) as u16);
		t[0x3C] = NonZeroU16::new((4 + spec_size_end(v)) as u16);
	}
	t[0x10] = NonZeroU16::new(516);
	t[UNKNOWN_A as usize] = NonZeroU16::new(1);
	t[UNKNOWN_B as usize] = NonZeroU16::new(8);
	t
}

/// Parser state right after `parse_start` for a Game Start without occupied ports.
pub fn free_state(v: Version) -> ParseState {
	let frames = MFrame::with_capacity(0, v, &[]);
	ParseState::verif_from_parts(table_for(v), 0, mk_start(v), frames, [0; 4])
}

/// Write a big-endian frame id after the event code.
pub fn put_id(ev: &mut [u8], id: i32) {
	let b = id.to_be_bytes();
	ev[1] = b[0];
	ev[2] = b[1];
	ev[3] = b[2];
	ev[4] = b[3];
}

/// How `Frag2` splits a read of `want` bytes.
#[derive(Clone, Copy, PartialEq)]
pub enum Split {
	/// one byte first, the rest on the next call
	First1,
	/// the first half first
	Half,
	/// all but the last byte first
	AllButOne,
}

/// A stream that answers every `read` of `want` >= 2 bytes in two pieces, the split point given
/// by `mode`.  The split points are concrete: a solver-chosen count makes the stream position,
/// and with it every byte the parser reads afterwards (event codes, sizes), symbolic, which no
/// harness through the parser survives (> 25 min).  The three modes are run as separate calls.
pub struct Frag2<'a> {
	data: &'a [u8],
	pos: usize,
	pub handed_out: usize,
	short_next: bool,
	mode: Split,
}

impl<'a> Frag2<'a> {
	pub fn new(data: &'a [u8]) -> Self {
		Frag2 { data, pos: 0, handed_out: 0, short_next: true, mode: Split::Half }
	}

	pub fn with_mode(data: &'a [u8], mode: Split) -> Self {
		Frag2 { data, pos: 0, handed_out: 0, short_next: true, mode }
	}
}

impl<'a> Read for Frag2<'a> {
	fn read(&mut self, buf: &mut [u8]) -> std::io::Result<usize> {
		let avail = self.data.len() - self.pos;
		let want = if buf.len() < avail { buf.len() } else { avail };
		if want == 0 {
			return Ok(0);
		}
		let n = if self.short_next && want >= 2 {
			match self.mode {
				Split::First1 => 1,
				Split::Half => want / 2,
				Split::AllButOne => want - 1,
			}
		} else {
			want
		};
		self.short_next = !self.short_next || n == want;
		buf[..n].copy_from_slice(&self.data[self.pos..self.pos + n]);
		self.pos += n;
		self.handed_out += n;
		Ok(n)
	}
}

use peppi::frame::mutable::PortData as MPortData;
use peppi::frame::PortOccupancy;
use peppi::game::Port;

/// Parser state right after `parse_start` for a game with exactly one occupied port whose
/// column set is the caller's `store` (see `typed_ports`).  `forget` the state AND `store`.
pub fn one_port_state(v: Version, store: &mut MPortData, port: Port) -> core::mem::ManuallyDrop<ParseState> {
	let mut frames = MFrame::with_capacity(0, v, &[]);
	let ports = unsafe { Vec::from_raw_parts(store as *mut MPortData, 1, 1) };
	forget(core::mem::replace(&mut frames.ports, ports));
	// what parse_start computes: ports[] slot of each occupied port number (others stay 0)
	let mut idx = [0usize; 4];
	idx[port as usize] = 0;
	// ManuallyDrop: the state must never be dropped (its `ports` Vec does not own its buffer),
	// not even while unwinding from a failed assertion in a native replay
	core::mem::ManuallyDrop::new(ParseState::verif_from_parts(table_for(v), 0, mk_start(v), frames, idx))
}

/// Row capacity of the harness-built port columns: enough for every harness (<= 3 rows), so no
/// `push` has to grow its buffer (parse_start itself reserves 1024 rows; with capacity 0 every
/// first push explores the allocator's grow path, which triples the cost of a step).
pub const PORT_CAPACITY: usize = 4;

pub fn new_port(v: Version, port: Port, ics: bool) -> core::mem::ManuallyDrop<MPortData> {
	core::mem::ManuallyDrop::new(MPortData::with_capacity(PORT_CAPACITY, v, PortOccupancy { port, follower: ics }))
}

/// Fill the 6-byte header of a Frame Pre / Frame Post event.
pub fn put_port_header(ev: &mut [u8], code: u8, id: i32, port: u8, follower: bool) {
	ev[0] = code;
	put_id(ev, id);
	ev[5] = port;
	ev[6] = follower as u8;
}

/// Two occupied ports; the column sets live in the caller's typed array.
pub fn two_port_state(
	v: Version,
	store: &mut [MPortData; 2],
	ports: [Port; 2],
) -> core::mem::ManuallyDrop<ParseState> {
	let mut frames = MFrame::with_capacity(0, v, &[]);
	let vec = unsafe { Vec::from_raw_parts(store.as_mut_ptr(), 2, 2) };
	forget(core::mem::replace(&mut frames.ports, vec));
	let mut idx = [0usize; 4];
	idx[ports[0] as usize] = 0;
	idx[ports[1] as usize] = 1;
	core::mem::ManuallyDrop::new(ParseState::verif_from_parts(table_for(v), 0, mk_start(v), frames, idx))
}
