//! C06 – reading never panics: units fed arbitrary bytes, and `parse_event` fed events that
//! are inconsistent with the parser state.  Every harness asserts nothing beyond "returns":
//! panics, failed `unwrap`s, out-of-bounds indexing and arithmetic overflow are Kani's default checks.
use crate::gen_c03::*;
use crate::steps::*;
use crate::util::*;
use arrow2::array::MutableArray;
use core::mem::forget;
use core::num::NonZeroU16;
use peppi::io::slippi::de::verif::{game_end, game_start, handle_splitter_event, parse_payloads};
use peppi::io::slippi::de::{parse_event, ParseState};
use peppi::io::slippi::Version;

fn end_short(n: usize) {
	let b: [u8; 5] = kani::any();
	let mut r: &[u8] = &b[..n];
	let res = game_end(&mut r);
	// a block cut inside the placements (3..=5 bytes) or empty must be an error, never a partial End
	if n == 0 || n >= 3 {
		assert!(res.is_err());
	}
	forget(res);
}

// @verif property=C06,C07 tier=quick mem=10 timeout=1500
// @encodes peppi::io::slippi::de::game_end, if_more on blocks of every length 0..=5 (all shorter than a full 3.13+ block)
// @symbolic 240 all bytes of six blocks
// @bound lengths 0, 1, 2, 3, 4, 5 (one call each; length 6 with its placement bytes: c05_end_len6_*)
// @stub alloc::fmt::format = returns an empty String
#[kani::proof]
#[kani::unwind(8)]
#[kani::stub(alloc::fmt::format, format_stub)]
fn c06_nopanic_end_short() {
	end_short(0);
	end_short(1);
	end_short(2);
	end_short(3);
	end_short(4);
	end_short(5);
	kani::cover!(true, "reached");
}

fn start_short(n: usize) {
	let b: [u8; 320] = kani::any();
	let mut r: &[u8] = &b[..n];
	let res = game_start(&mut r);
	assert!(res.is_err());
	forget(res);
}

// @verif property=C06,C07 tier=quick mem=10 timeout=1500
// @encodes peppi::io::slippi::de::game_start on a block shorter than the oldest layout
// @symbolic 10000 all bytes of four blocks
// @bound lengths 0, 3, 100 (inside the game-info block), 319 (one byte short of the 0.1 layout); the cut lengths are concrete (a symbolic length makes all 30 reads fallible: > 15 min)
// @stub alloc::fmt::format = returns an empty String
// @cbmc --max-field-sensitivity-array-size 1024
#[kani::proof]
#[kani::unwind(8)]
#[kani::stub(alloc::fmt::format, format_stub)]
fn c06_nopanic_start_short() {
	start_short(0);
	start_short(3);
	start_short(100);
	start_short(319);
	kani::cover!(true, "reached");
}

// @verif property=C06 tier=quick mem=10 timeout=1500
// @encodes peppi::io::slippi::de::handle_splitter_event on a 516-byte block with arbitrary size/code/final fields
// @symbolic 4128 all 516 bytes of the block
// @bound one splitter block; empty accumulator
// @stub alloc::fmt::format = returns an empty String
// @cbmc --max-field-sensitivity-array-size 1024
#[kani::proof]
#[kani::unwind(8)]
#[kani::stub(alloc::fmt::format, format_stub)]
fn c06_nopanic_splitter_fields() {
	let b: [u8; 516] = kani::any();
	let mut raw: Vec<u8> = Vec::new();
	let mut actual: u32 = 0;
	let res = handle_splitter_event(&b[..], &mut raw, &mut actual);
	kani::cover!(u16::from_be_bytes([b[512], b[513]]) > 512, "declared size beyond the block");
	kani::cover!(res.is_ok(), "accepted");
	forget(res);
	forget(raw);
}

fn splitter_len(n: usize) {
	let b: [u8; 520] = kani::any();
	let mut raw: Vec<u8> = Vec::new();
	let mut actual: u32 = 0;
	let res = handle_splitter_event(&b[..n], &mut raw, &mut actual);
	// a splitter payload of any length other than 516 is rejected, nothing is accumulated
	assert!(res.is_err());
	assert!(raw.len() == 0 && actual == 0);
	forget(res);
	forget(raw);
}

// @verif property=C06 tier=quick mem=10 timeout=1500
// @encodes peppi::io::slippi::de::handle_splitter_event on a payload whose length is not 516 (what parse_event hands over when the payload table declares another size for the message splitter)
// @symbolic 12000 the payload bytes (three calls)
// @bound payload lengths 1, 515 and 517 (concrete)
// @assume unit level: on the unrepaired tree the same sizes were driven through parse_event (replays/C06/c06_nopanic_splitter_size_*.rs); on the repaired tree that harness does not finish (25 min), so the length check is exercised directly
// @stub alloc::fmt::format = returns an empty String
// @cbmc --max-field-sensitivity-array-size 1024
#[kani::proof]
#[kani::unwind(8)]
#[kani::stub(alloc::fmt::format, format_stub)]
fn c06_nopanic_splitter_len() {
	splitter_len(1);
	splitter_len(515);
	splitter_len(517);
	kani::cover!(true, "returned");
}

fn event_after_open_frame(v: Version, code: u8, open_first: bool) -> bool {
	let mut state = free_state(v);
	let a: i32 = kani::any();
	if open_first {
		// one well-formed Frame Start first
		let mut s0: [u8; 13] = kani::any();
		s0[0] = 0x3A;
		put_id(&mut s0, a);
		let n = 1 + 4 + spec_size_start(v);
		let r0 = parse_event(&s0[..n], &mut state, None);
		assert!(r0.is_ok());
		forget(r0);
	}
	// then one event of kind `code` with an arbitrary frame id and payload
	let mut ev: [u8; 45] = kani::any();
	ev[0] = code;
	let n = 1 + state.verif_payload_size(code).unwrap_or(1) as usize;
	let before = state.bytes_read();
	let res = parse_event(&ev[..n], &mut state, None);
	if res.is_ok() {
		// a successful step always consumes input (no hang)
		assert!(state.bytes_read() >= before + 2);
	}
	let id = i32::from_be_bytes([ev[1], ev[2], ev[3], ev[4]]);
	kani::cover!(true, "returned");
	forget(res);
	forget(state);
	id != a
}

// @verif property=C06 tier=quick mem=12 timeout=1800
// @encodes peppi::io::slippi::de::parse_event Item arm with a frame id unrelated to the open frame
// @symbolic 416 id of the open frame, id and payload of the Item event
// @bound port-free 3.16 state, one open frame, one Item event
// @stub alloc::fmt::format = returns an empty String
// @stub std::hash::RandomState::new = fixed keys
// @cbmc --max-field-sensitivity-array-size 512
#[kani::proof]
#[kani::unwind(10)]
#[kani::stub(alloc::fmt::format, format_stub)]
#[kani::stub(std::hash::RandomState::new, random_state_stub)]
fn c06_nopanic_item_any_id() {
	let differs = event_after_open_frame(Version(3, 16, 0), 0x3B, true);
	kani::cover!(differs, "frame id differs from the open frame");
	kani::cover!(!differs, "frame id matches the open frame");
}

// @verif property=C06 tier=quick mem=12 timeout=1800
// @encodes peppi::io::slippi::de::parse_event Frame End arm with a frame id unrelated to the open frame
// @symbolic 128 id of the open frame, id and payload of the Frame End event
// @bound port-free 3.16 state, one open frame, one Frame End event
// @stub alloc::fmt::format = returns an empty String
// @stub std::hash::RandomState::new = fixed keys
// @cbmc --max-field-sensitivity-array-size 512
#[kani::proof]
#[kani::unwind(10)]
#[kani::stub(alloc::fmt::format, format_stub)]
#[kani::stub(std::hash::RandomState::new, random_state_stub)]
fn c06_nopanic_end_any_id() {
	let differs = event_after_open_frame(Version(3, 16, 0), 0x3C, true);
	kani::cover!(differs, "frame id differs from the open frame");
	kani::cover!(!differs, "frame id matches the open frame");
}

// @verif property=C06 tier=quick mem=12 timeout=1800
// @encodes peppi::io::slippi::de::parse_event Item arm before any frame was opened
// @symbolic 352 id and payload of the Item event
// @bound port-free 3.16 state, no frame yet, one Item event
// @stub alloc::fmt::format = returns an empty String
// @stub std::hash::RandomState::new = fixed keys
// @cbmc --max-field-sensitivity-array-size 512
#[kani::proof]
#[kani::unwind(10)]
#[kani::stub(alloc::fmt::format, format_stub)]
#[kani::stub(std::hash::RandomState::new, random_state_stub)]
fn c06_nopanic_item_no_frame() {
	event_after_open_frame(Version(3, 16, 0), 0x3B, false);
}

// @verif property=C06 tier=quick mem=12 timeout=1800
// @encodes peppi::io::slippi::de::parse_event Frame End arm before any frame was opened
// @symbolic 64 id and payload of the Frame End event
// @bound port-free 3.16 state, no frame yet, one Frame End event
// @stub alloc::fmt::format = returns an empty String
// @stub std::hash::RandomState::new = fixed keys
// @cbmc --max-field-sensitivity-array-size 512
#[kani::proof]
#[kani::unwind(10)]
#[kani::stub(alloc::fmt::format, format_stub)]
#[kani::stub(std::hash::RandomState::new, random_state_stub)]
fn c06_nopanic_end_no_frame() {
	event_after_open_frame(Version(3, 16, 0), 0x3C, false);
}

fn event_the_version_lacks(code: u8, size: u16) {
	// a 1.0 file whose payload table nevertheless declares a 2.2+/3.0+ event
	let v = Version(1, 0, 0);
	let mut t = table_for(v);
	t[code as usize] = NonZeroU16::new(size);
	let frames = peppi::frame::mutable::Frame::with_capacity(0, v, &[]);
	let mut state = ParseState::verif_from_parts(t, 0, mk_start(v), frames, [0; 4]);
	let mut ev: [u8; 45] = kani::any();
	ev[0] = code;
	let res = parse_event(&ev[..1 + size as usize], &mut state, None);
	kani::cover!(true, "returned");
	forget(res);
	forget(state);
}

// @verif property=C06 tier=quick mem=12 timeout=1800
// @encodes peppi::io::slippi::de::parse_event Frame Start arm on a version that has no Frame Start column
// @symbolic 96 event payload
// @bound port-free 1.0 state, one event
// @stub alloc::fmt::format = returns an empty String
// @stub std::hash::RandomState::new = fixed keys
// @cbmc --max-field-sensitivity-array-size 512
#[kani::proof]
#[kani::unwind(10)]
#[kani::stub(alloc::fmt::format, format_stub)]
#[kani::stub(std::hash::RandomState::new, random_state_stub)]
fn c06_nopanic_start_event_on_v1() {
	event_the_version_lacks(0x3A, 12);
}

// @verif property=C06 tier=thorough mem=12 timeout=1800
// @encodes peppi::io::slippi::de::parse_event Item arm on a version that has no item column
// @symbolic 352 event payload
// @bound port-free 1.0 state, one event
// @stub alloc::fmt::format = returns an empty String
// @stub std::hash::RandomState::new = fixed keys
// @cbmc --max-field-sensitivity-array-size 512
#[kani::proof]
#[kani::unwind(10)]
#[kani::stub(alloc::fmt::format, format_stub)]
#[kani::stub(std::hash::RandomState::new, random_state_stub)]
fn c06_nopanic_item_event_on_v1() {
	event_the_version_lacks(0x3B, 44);
}

// @verif property=C06 tier=thorough mem=12 timeout=1800
// @encodes peppi::io::slippi::de::parse_event Frame End arm on a version that has no end column
// @symbolic 64 event payload
// @bound port-free 1.0 state, one event
// @stub alloc::fmt::format = returns an empty String
// @stub std::hash::RandomState::new = fixed keys
// @cbmc --max-field-sensitivity-array-size 512
#[kani::proof]
#[kani::unwind(10)]
#[kani::stub(alloc::fmt::format, format_stub)]
#[kani::stub(std::hash::RandomState::new, random_state_stub)]
fn c06_nopanic_end_event_on_v1() {
	event_the_version_lacks(0x3C, 8);
}

// @verif property=C06,C07 tier=quick mem=12 timeout=1800
// @encodes peppi::io::slippi::de::parse_payloads on an arbitrary stream of up to 11 bytes
// @symbolic 96 stream length and bytes
// @bound streams of 0..=11 bytes (payload tables of up to 3 entries, every truncation of them)
// @stub alloc::fmt::format = returns an empty String
#[kani::proof]
#[kani::unwind(14)]
#[kani::stub(alloc::fmt::format, format_stub)]
fn c06_nopanic_payloads() {
	let b: [u8; 11] = kani::any();
	let n: usize = kani::any();
	kani::assume(n <= 11);
	let res = parse_payloads(&b[..n]);
	match &res {
		Ok((used, sizes)) => {
			// accepted only if well-formed: right code, size byte = 3k+1, both mandatory events declared
			assert!(b[0] == 0x35 && b[1] % 3 == 1);
			assert!(*used == 1 + b[1] as usize && *used <= n);
			assert!(sizes[0x36].is_some() && sizes[0x39].is_some());
		}
		Err(_) => {}
	}
	kani::cover!(res.is_ok(), "accepted");
	kani::cover!(res.is_err() && n >= 2 && b[0] == 0x35 && b[1] % 3 == 1, "truncated or incomplete table");
	forget(res);
}

fn splitter_wraps(code: u8) {
	let v = Version(3, 16, 0);
	let mut state = free_state(v);
	let mut ev: [u8; 517] = kani::any();
	ev[0] = 0x10;
	ev[513] = 0;
	ev[514] = 40;
	ev[515] = code;
	ev[516] = 1;
	let res = parse_event(&ev[..], &mut state, None);
	if let Ok(c) = &res {
		assert!(*c == code);
		assert!(state.bytes_read() == 517);
	}
	forget(res);
	forget(state);
}

// @verif property=C06,C08 tier=quick mem=12 timeout=1800
// @encodes peppi::io::slippi::de::parse_event + handle_splitter_event: a final splitter chunk that wraps an event code the payload table does not declare
// @symbolic 4096 the 512 data bytes
// @bound one final 516-byte splitter block (chunk size 40) wrapping code 0x3E (not declared, not known); port-free 3.16 state
// @stub alloc::fmt::format = returns an empty String
// @stub std::hash::RandomState::new = fixed keys
// @cbmc --max-field-sensitivity-array-size 1024
#[kani::proof]
#[kani::unwind(10)]
#[kani::stub(alloc::fmt::format, format_stub)]
#[kani::stub(std::hash::RandomState::new, random_state_stub)]
fn c06_nopanic_splitter_wraps_undeclared() {
	splitter_wraps(0x3E);
	kani::cover!(true, "returned");
}

// @verif property=C06,C08 tier=thorough mem=12 timeout=1800
// @encodes peppi::io::slippi::de::parse_event + handle_splitter_event: a final splitter chunk that wraps code 0xFF / the splitter's own code
// @symbolic 8192 the 512 data bytes (two calls)
// @bound final 516-byte splitter blocks wrapping 0xFF and 0x10; port-free 3.16 state
// @stub alloc::fmt::format = returns an empty String
// @stub std::hash::RandomState::new = fixed keys
// @cbmc --max-field-sensitivity-array-size 1024
#[kani::proof]
#[kani::unwind(10)]
#[kani::stub(alloc::fmt::format, format_stub)]
#[kani::stub(std::hash::RandomState::new, random_state_stub)]
fn c06_nopanic_splitter_wraps_other() {
	splitter_wraps(0xFF);
	splitter_wraps(0x10);
	kani::cover!(true, "returned");
}
