//! C20 – version comparison, parsing and display.
use peppi::io::peppi::Version as PVersion;
use peppi::io::slippi::Version;
use std::str::FromStr;

// @verif property=C20 tier=quick mem=8 timeout=600
// @encodes peppi::io::slippi::Version::gte, Version::lt
// @symbolic 40 version triple (3 x u8) and threshold (major, minor)
// @bound none - complete over all 2^24 versions x 2^16 thresholds
#[kani::proof]
fn c20_gte_lex() {
	let v = Version(kani::any(), kani::any(), kani::any());
	let (ma, mi): (u8, u8) = (kani::any(), kani::any());
	// lexicographic order on (major, minor) written as one integer comparison
	let expect = (v.0 as u32) * 256 + v.1 as u32 >= (ma as u32) * 256 + mi as u32;
	assert!(v.gte(ma, mi) == expect);
	assert!(v.lt(ma, mi) == !expect);
	kani::cover!(expect, "gate on");
	kani::cover!(!expect, "gate off");
}

// @verif property=C20 tier=quick mem=8 timeout=600
// @encodes peppi::io::slippi::Version::gte
// @symbolic 64 two version triples and a threshold
// @bound none - complete: every gate is monotone in the version
#[kani::proof]
fn c20_gate_monotone() {
	let v = Version(kani::any(), kani::any(), kani::any());
	let w = Version(kani::any(), kani::any(), kani::any());
	let (ma, mi): (u8, u8) = (kani::any(), kani::any());
	let key = |x: Version| (x.0 as u32) << 16 | (x.1 as u32) << 8 | x.2 as u32;
	kani::assume(key(v) <= key(w));
	if v.gte(ma, mi) {
		assert!(w.gte(ma, mi));
	}
	kani::cover!(v.gte(ma, mi) && key(v) < key(w), "monotone step");
}


fn vkey3(v: (u8, u8, u8)) -> u32 {
	(v.0 as u32) << 16 | (v.1 as u32) << 8 | v.2 as u32
}

// @verif property=C20 tier=quick mem=8 timeout=600
// @encodes peppi::io::peppi::assert_current_version (format-version gate of the .slpp reader), derived Ord of peppi::Version
// @symbolic 24 version triple
// @bound none - complete over all 2^24 format versions
// @stub alloc::fmt::format = returns an empty String
#[kani::proof]
#[kani::stub(alloc::fmt::format, crate::util::format_stub)]
fn c20_peppi_version_gate() {
	let v = PVersion(kani::any(), kani::any(), kani::any());
	let r = peppi::io::peppi::verif::assert_current_version(v);
	// rejected exactly when below the minimum supported format version 2.0.0
	assert!(r.is_err() == (vkey3((v.0, v.1, v.2)) < vkey3((2, 0, 0))));
	kani::cover!(r.is_err(), "too old");
	kani::cover!(r.is_ok(), "accepted");
	core::mem::forget(r);
}

/// Reference scanner for "exactly three dot-separated integers in 0..=255" (what `u8::from_str`
/// accepts for one component: an optional '+', then one or more ASCII digits, value <= 255).
fn ref_component(s: &[u8]) -> Option<u8> {
	let mut i = 0;
	if i < s.len() && s[i] == b'+' {
		i += 1;
	}
	if i >= s.len() {
		return None;
	}
	let mut val: u32 = 0;
	while i < s.len() {
		let c = s[i];
		if c < b'0' || c > b'9' {
			return None;
		}
		val = val * 10 + (c - b'0') as u32;
		if val > 255 {
			return None;
		}
		i += 1;
	}
	Some(val as u8)
}

fn ref_parse(s: &[u8]) -> Option<(u8, u8, u8)> {
	// positions of the dots
	let mut dots = [0usize; 2];
	let mut nd = 0;
	let mut i = 0;
	while i < s.len() {
		if s[i] == b'.' {
			if nd == 2 {
				return None;
			}
			dots[nd] = i;
			nd += 1;
		}
		i += 1;
	}
	if nd != 2 {
		return None;
	}
	let a = ref_component(&s[..dots[0]])?;
	let b = ref_component(&s[dots[0] + 1..dots[1]])?;
	let c = ref_component(&s[dots[1] + 1..])?;
	Some((a, b, c))
}

const ALPHABET: [u8; 13] = [b'.', b'+', b'-', b'0', b'1', b'2', b'5', b'6', b'9', b'a', b' ', b'3', b'7'];

fn parse_rejects<const L: usize, const PEPPI: bool>() -> bool {
	let mut bytes = [0u8; L];
	let mut i = 0;
	while i < L {
		let k: usize = kani::any();
		kani::assume(k < ALPHABET.len());
		bytes[i] = ALPHABET[k];
		i += 1;
	}
	let s = unsafe { core::str::from_utf8_unchecked(&bytes) };
	let want = ref_parse(&bytes);
	if PEPPI {
		let r = PVersion::from_str(s);
		match (&r, want) {
			(Ok(v), Some(w)) => assert!((v.0, v.1, v.2) == w),
			(Err(_), None) => {}
			_ => assert!(false),
		}
		let ok = r.is_ok();
		core::mem::forget(r);
		ok
	} else {
		let r = Version::from_str(s);
		match (&r, want) {
			(Ok(v), Some(w)) => assert!((v.0, v.1, v.2) == w),
			(Err(_), None) => {}
			_ => assert!(false),
		}
		let ok = r.is_ok();
		core::mem::forget(r);
		ok
	}
}

// @verif property=C20 tier=thorough mem=16 timeout=2400
// @encodes impl FromStr for peppi::io::slippi::Version, peppi::io::parse_u8 (with the real str::split and u8::from_str)
// @symbolic 8 every string of length 2 over a 13-symbol alphabet (. + - digits letter space)
// @bound strings of exactly 2 bytes (none can be a version: rejection side only)
// @stub alloc::fmt::format = returns an empty String (error message text)
#[kani::proof]
#[kani::unwind(8)]
#[kani::stub(alloc::fmt::format, crate::util::format_stub)]
fn c20_parse_rejects_slippi_l2() {
	let ok = parse_rejects::<2, false>();
	kani::cover!(!ok, "rejected");
}

// @verif property=C20 tier=thorough mem=16 timeout=2400
// @encodes impl FromStr for peppi::io::slippi::Version, peppi::io::parse_u8
// @symbolic 12 every string of length 3 over a 13-symbol alphabet
// @bound strings of exactly 3 bytes (rejection side only)
// @stub alloc::fmt::format = returns an empty String (error message text)
#[kani::proof]
#[kani::unwind(8)]
#[kani::stub(alloc::fmt::format, crate::util::format_stub)]
fn c20_parse_rejects_slippi_l3() {
	let ok = parse_rejects::<3, false>();
	kani::cover!(!ok, "rejected");
}

// @verif property=C20 tier=thorough mem=12 timeout=2400
// @encodes impl FromStr for peppi::io::slippi::Version, peppi::io::parse_u8 (with the real str::split and u8::from_str)
// @symbolic 15 every string of length 4 over a 13-symbol alphabet (. + - digits letter space)
// @bound strings of exactly 4 bytes (none can be a version: rejection side only)
// @stub alloc::fmt::format = returns an empty String (error message text)
#[kani::proof]
#[kani::unwind(8)]
#[kani::stub(alloc::fmt::format, crate::util::format_stub)]
fn c20_parse_rejects_slippi_l4() {
	let ok = parse_rejects::<4, false>();
	kani::cover!(!ok, "rejected");
}

// @verif property=C20 tier=thorough mem=16 timeout=3000
// @encodes impl FromStr for peppi::io::slippi::Version, peppi::io::parse_u8
// @symbolic 19 every string of length 5 over a 13-symbol alphabet
// @bound strings of exactly 5 bytes: acceptance (e.g. "1.2.3", "+1.2.3" is 6 so not) and rejection vs. the reference scanner
// @stub alloc::fmt::format = returns an empty String
#[kani::proof]
#[kani::unwind(8)]
#[kani::stub(alloc::fmt::format, crate::util::format_stub)]
fn c20_parse_rejects_slippi_l5() {
	let ok = parse_rejects::<5, false>();
	kani::cover!(ok, "accepted");
	kani::cover!(!ok, "rejected");
}

// @verif property=C20 tier=thorough mem=16 timeout=3000
// @encodes impl FromStr for peppi::io::peppi::Version, peppi::io::parse_u8
// @symbolic 19 every string of length 5 over a 13-symbol alphabet
// @bound strings of exactly 5 bytes
// @stub alloc::fmt::format = returns an empty String
#[kani::proof]
#[kani::unwind(8)]
#[kani::stub(alloc::fmt::format, crate::util::format_stub)]
fn c20_parse_rejects_peppi_l5() {
	let ok = parse_rejects::<5, true>();
	kani::cover!(ok, "accepted");
	kani::cover!(!ok, "rejected");
}

// @verif property=C20 tier=quick mem=10 timeout=1500
// @encodes peppi::io::parse_u8 (u8::from_str) on every 1..=3-character component
// @symbolic 26 component length and three characters from the alphabet
// @bound components of 1..=3 bytes: all three-digit values incl. 256..999 (overflow), leading '+', '-', junk
// @stub alloc::fmt::format = returns an empty String
#[kani::proof]
#[kani::unwind(8)]
#[kani::stub(alloc::fmt::format, crate::util::format_stub)]
fn c20_parse_u8_total() {
	let mut bytes = [0u8; 3];
	let mut i = 0;
	while i < 3 {
		let k: usize = kani::any();
		kani::assume(k < ALPHABET.len());
		bytes[i] = ALPHABET[k];
		i += 1;
	}
	let n: usize = kani::any();
	kani::assume(n <= 3);
	let s = unsafe { core::str::from_utf8_unchecked(&bytes[..n]) };
	let r = peppi::io::verif::parse_u8(s);
	match (&r, ref_component(&bytes[..n])) {
		(Ok(v), Some(w)) => assert!(*v == w),
		(Err(_), None) => {}
		_ => assert!(false),
	}
	kani::cover!(r.is_ok() && n == 3, "three-digit value");
	kani::cover!(r.is_err() && n == 3 && bytes[0] == b'2' && bytes[1] == b'5' && bytes[2] == b'6', "256 rejected");
	kani::cover!(n == 0, "empty component");
	core::mem::forget(r);
}

/// "1.2.1" followed by TAIL solver-chosen characters: the strings that have a valid triple in
/// front and something after it (a fourth component, a trailing dot, junk, or more digits of
/// the patch component).
fn parse_tail<const TAIL: usize, const N: usize, const PEPPI: bool>() -> bool {
	let mut bytes = [0u8; N];
	// the triple in front is concrete ("1.2.1": the patch component can grow to three digits and stay <= 255): with solver-chosen digits as well the three
	// variants went past 12 GB each without a verdict (str::split's searcher over symbolic bytes)
	bytes[0] = b'1';
	bytes[1] = b'.';
	bytes[2] = b'2';
	bytes[3] = b'.';
	bytes[4] = b'1';
	let mut i = 0;
	while i < TAIL {
		let k: usize = kani::any();
		kani::assume(k < ALPHABET.len());
		bytes[5 + i] = ALPHABET[k];
		i += 1;
	}
	let s = unsafe { core::str::from_utf8_unchecked(&bytes) };
	let want = ref_parse(&bytes);
	if PEPPI {
		let r = PVersion::from_str(s);
		match (&r, want) {
			(Ok(v), Some(w)) => assert!((v.0, v.1, v.2) == w),
			(Err(_), None) => {}
			_ => assert!(false),
		}
		let ok = r.is_ok();
		core::mem::forget(r);
		ok
	} else {
		let r = Version::from_str(s);
		match (&r, want) {
			(Ok(v), Some(w)) => assert!((v.0, v.1, v.2) == w),
			(Err(_), None) => {}
			_ => assert!(false),
		}
		let ok = r.is_ok();
		core::mem::forget(r);
		ok
	}
}

// @verif property=C20 tier=thorough mem=16 timeout=3600
// @encodes impl FromStr for peppi::io::slippi::Version, peppi::io::parse_u8 on strings with a valid triple in front
// @symbolic 8 two trailing characters over the 13-symbol alphabet
// @bound strings `1.2.1XY` (7 bytes): fourth components, trailing dots, junk and three-digit patch components vs. the reference scanner
// @stub alloc::fmt::format = returns an empty String
#[kani::proof]
#[kani::unwind(10)]
#[kani::stub(alloc::fmt::format, crate::util::format_stub)]
fn c20_parse_tail2_slippi() {
	let ok = parse_tail::<2, 7, false>();
	kani::cover!(ok, "accepted");
	kani::cover!(!ok, "rejected");
}

// @verif property=C20 tier=quick mem=16 timeout=2400
// @encodes impl FromStr for peppi::io::slippi::Version, peppi::io::parse_u8 on strings with a valid triple in front
// @symbolic 4 one trailing character over the 13-symbol alphabet
// @bound strings `1.2.1X` (6 bytes): trailing dot, junk, two-digit patch component vs. the reference scanner
// @stub alloc::fmt::format = returns an empty String
#[kani::proof]
#[kani::unwind(10)]
#[kani::stub(alloc::fmt::format, crate::util::format_stub)]
fn c20_parse_tail1_slippi() {
	let ok = parse_tail::<1, 6, false>();
	kani::cover!(ok, "accepted");
	kani::cover!(!ok, "rejected");
}

// @verif property=C20 tier=thorough mem=16 timeout=2400
// @encodes impl FromStr for peppi::io::peppi::Version, peppi::io::parse_u8 on strings with a valid triple in front
// @symbolic 4 one trailing character over the 13-symbol alphabet
// @bound strings `1.2.1X` (6 bytes)
// @stub alloc::fmt::format = returns an empty String
#[kani::proof]
#[kani::unwind(10)]
#[kani::stub(alloc::fmt::format, crate::util::format_stub)]
fn c20_parse_tail1_peppi() {
	let ok = parse_tail::<1, 6, true>();
	kani::cover!(ok, "accepted");
	kani::cover!(!ok, "rejected");
}
