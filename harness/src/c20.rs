//! C20 – version comparison, parsing and display.
use peppi::io::peppi::Version as PVersion;
use peppi::io::slippi::Version;
use std::str::FromStr;

// @verif property=C20 tier=quick mem=8 timeout=600
// @encodes peppi::io::slippi::Version::gte, Version::lt
// @symbolic 40 version triple (3 x u8) and threshold (major, minor)
// @bound none - complete over all 2^24 versions x 2^16 thresholds
#[kani::proof]
fn c20_gte_lex() {
	let v = Version(kani::any(), kani::any(), kani::any());
	let (ma, mi): (u8, u8) = (kani::any(), kani::any());
	// lexicographic order on (major, minor) written as one integer comparison
	let expect = (v.0 as u32) * 256 + v.1 as u32 >= (ma as u32) * 256 + mi as u32;
	assert!(v.gte(ma, mi) == expect);
	assert!(v.lt(ma, mi) == !expect);
	kani::cover!(expect, "gate on");
	kani::cover!(!expect, "gate off");
}

// @verif property=C20 tier=quick mem=8 timeout=600
// @encodes peppi::io::slippi::Version::gte
// @symbolic 64 two version triples and a threshold
// @bound none - complete: every gate is monotone in the version
#[kani::proof]
fn c20_gate_monotone() {
	let v = Version(kani::any(), kani::any(), kani::any());
	let w = Version(kani::any(), kani::any(), kani::any());
	let (ma, mi): (u8, u8) = (kani::any(), kani::any());
	let key = |x: Version| (x.0 as u32) << 16 | (x.1 as u32) << 8 | x.2 as u32;
	kani::assume(key(v) <= key(w));
	if v.gte(ma, mi) {
		assert!(w.gte(ma, mi));
	}
	kani::cover!(v.gte(ma, mi) && key(v) < key(w), "monotone step");
}

