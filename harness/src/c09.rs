//! C09 – writers refuse games newer than the supported version.
use crate::util::*;
use core::mem::forget;
use peppi::frame::mutable::Frame as MFrame;
use peppi::game::immutable::Game;
use peppi::io::slippi::Version;
use std::io::Write;

fn vkey3(v: Version) -> u32 {
	(v.0 as u32) << 16 | (v.1 as u32) << 8 | v.2 as u32
}

/// (major, minor, patch) order, written out – not the derived `Ord` the implementation uses.
fn newer_than_max(v: Version) -> bool {
	vkey3(v) > (3u32 << 16 | 16u32 << 8 | 0)
}

// @verif property=C09 tier=quick mem=8 timeout=900
// @encodes peppi::io::slippi::assert_max_version, MAX_SUPPORTED_VERSION, derived Ord of Version
// @symbolic 24 version triple
// @bound none - complete over all 2^24 versions
// @stub alloc::fmt::format = returns an empty String (message text is not part of the property)
#[kani::proof]
#[kani::stub(alloc::fmt::format, format_stub)]
fn c09_guard_total() {
	let v = Version(kani::any(), kani::any(), kani::any());
	let r = peppi::io::slippi::verif::assert_max_version(v);
	assert!(r.is_err() == newer_than_max(v));
	kani::cover!(r.is_err(), "refused");
	kani::cover!(r.is_ok(), "accepted");
	kani::cover!(r.is_err() && v.0 == 3 && v.1 == 16, "refused on patch level only");
	forget(r);
}

static mut NEWER: bool = false;

/// Sink that records "the writer got as far as emitting a byte" and ends the path there.
struct StopWriter;

impl Write for StopWriter {
	fn write(&mut self, buf: &[u8]) -> std::io::Result<usize> {
		// a first byte may only ever be produced for a supported version
		assert!(unsafe { !NEWER });
		kani::cover!(true, "writer reached its first write (supported version)");
		kani::assume(false);
		Ok(buf.len())
	}
	fn flush(&mut self) -> std::io::Result<()> {
		Ok(())
	}
}

fn zero_frame_game(v: Version) -> Game {
	Game {
		start: mk_start(v),
		end: None,
		// the frame columns play no role before the first write; built for a fixed layout
		frames: MFrame::with_capacity(0, Version(0, 1, 0), &[]).into(),
		metadata: None,
		gecko_codes: None,
		hash: None,
		quirks: None,
	}
}

// @verif property=C09 tier=quick mem=12 timeout=1500
// @encodes peppi::io::slippi::write (everything up to its first write: assert_max_version, payload_sizes, Pre/Post/Start/Item/End::size, game::End::size)
// @symbolic 24 version triple of the game being written
// @bound none in the version; zero-frame game without end/metadata/gecko codes
// @assume the sink ends the path at the first write (record-and-stop): only the guard and payload_sizes run
// @stub alloc::fmt::format = returns an empty String
// @replay twin=c09_slp_writer_guard_twin
#[kani::proof]
#[kani::unwind(8)]
#[kani::stub(alloc::fmt::format, format_stub)]
fn c09_slp_writer_guard() {
	let v = Version(kani::any(), kani::any(), kani::any());
	let game = zero_frame_game(v);
	unsafe { NEWER = newer_than_max(v) };
	let res = peppi::io::slippi::write(&mut StopWriter, &game);
	// only executions that returned before writing anything get here
	assert!(newer_than_max(v));
	assert!(res.is_err());
	kani::cover!(true, "refused before writing");
	forget(res);
	forget(game);
}

fn stop_builder_new<W: Write>(obj: W) -> tar::Builder<W> {
	assert!(unsafe { !NEWER });
	kani::cover!(true, "archive builder created (supported version)");
	kani::assume(false);
	forget(obj);
	panic!()
}

// @verif property=C09 tier=thorough mem=16 timeout=3000
// @encodes peppi::io::peppi::write (everything up to the creation of the tar builder: assert_max_version)
// @symbolic 24 version triple of the game being written
// @bound none in the version; zero-frame game
// @stub tar::Builder::new = record-and-stop (tar/serde/arrow are never executed)
// @stub alloc::fmt::format = returns an empty String
// @replay twin=c09_slpp_writer_guard_twin
#[kani::proof]
#[kani::unwind(8)]
#[kani::stub(alloc::fmt::format, format_stub)]
#[kani::stub(tar::Builder::new, stop_builder_new)]
fn c09_slpp_writer_guard() {
	let v = Version(kani::any(), kani::any(), kani::any());
	let game = zero_frame_game(v);
	unsafe { NEWER = newer_than_max(v) };
	let sink: Vec<u8> = Vec::new();
	let res = peppi::io::peppi::write(sink, game, None);
	assert!(newer_than_max(v));
	assert!(res.is_err());
	kani::cover!(true, "refused before creating the archive");
	forget(res);
}

/// Native twins (replay targets): same solver-chosen version, real sinks.  A refused game
/// must leave the sink untouched; a supported one must not be refused.
pub fn c09_slp_writer_guard_twin() {
	let v = Version(kani::any(), kani::any(), kani::any());
	let game = zero_frame_game(v);
	let mut sink: Vec<u8> = Vec::new();
	let res = peppi::io::slippi::write(&mut sink, &game);
	assert!(res.is_err() == newer_than_max(v), ".slp writer: refusal does not match the version");
	assert!(!newer_than_max(v) || sink.is_empty(), ".slp writer produced output for an unsupported version");
}

pub fn c09_slpp_writer_guard_twin() {
	let v = Version(kani::any(), kani::any(), kani::any());
	let game = zero_frame_game(v);
	let mut sink: Vec<u8> = Vec::new();
	let res = peppi::io::peppi::write(&mut sink, game, None);
	assert!(res.is_err() == newer_than_max(v), ".slpp writer: refusal does not match the version");
	assert!(!newer_than_max(v) || sink.is_empty(), ".slpp writer produced output for an unsupported version");
}
