//! Shared helpers for the harnesses.

/// Stand-in for `alloc::fmt::format`: error-message text is never part of a property.
pub fn format_stub(_args: core::fmt::Arguments<'_>) -> String {
	String::new()
}

/// Stand-in for `RandomState::new`: SipHash keys are environment randomness.
pub fn random_state_stub() -> std::hash::RandomState {
	unsafe { core::mem::transmute([0u64; 2]) }
}

use peppi::frame::mutable::{Frame as MFrame, PortData as MPortData};
use peppi::frame::PortOccupancy;
use peppi::game::{self, Port};
use peppi::io::slippi::{Slippi, Version};

/// A `game::Start` carrying only what `parse_event` consults (the version).
pub fn mk_start(version: Version) -> game::Start {
	game::Start {
		slippi: Slippi { version },
		bitfield: [0; 4],
		is_raining_bombs: false,
		is_teams: false,
		item_spawn_frequency: 0,
		self_destruct_score: 0,
		stage: 0,
		timer: 0,
		item_spawn_bitfield: [0; 5],
		damage_ratio: 1.0,
		players: Vec::new(),
		random_seed: 0,
		bytes: game::Bytes(Vec::new()),
		is_pal: None,
		is_frozen_ps: None,
		scene: None,
		language: None,
		r#match: None,
	}
}

/// `Vec<PortData>` whose buffer is the caller's *typed* array `store` (CBMC keeps typed objects
/// field-sensitive, whereas a heap buffer is one flat byte array).  Both the Vec (inside the
/// parser state) and `store` must be `mem::forget`-ed at the end and `store` must not be touched
/// in between; peppi never pushes to `ports` after `parse_start`, so the Vec never reallocates.
pub unsafe fn typed_ports<const N: usize>(store: &mut [MPortData; N]) -> Vec<MPortData> {
	Vec::from_raw_parts(store.as_mut_ptr(), N, N)
}

/// (major, minor) as one integer: the lexicographic order the spec's "added in" column means.
pub fn vkey(v: Version) -> u32 {
	(v.0 as u32) << 8 | v.1 as u32
}

/// Stand-in for `core::str::from_utf8` in harnesses whose text fields are short ASCII constants:
/// the real validator's word-at-a-time fast path branches on pointer alignment, which CBMC
/// treats as unknown, and then unwinds every validation loop to the bound.  UTF-8 validation
/// is not what those harnesses are about (they check offsets and values).
pub fn utf8_ascii_stub(v: &[u8]) -> Result<&str, core::str::Utf8Error> {
	assert!(v.len() <= 4);
	let mut i = 0;
	while i < v.len() {
		assert!(v[i] < 0x80);
		i += 1;
	}
	Ok(unsafe { core::str::from_utf8_unchecked(v) })
}

/// Stand-in for `std::io::copy` (its contract: read `reader` to its end, hand every byte to
/// `writer` in order, return the count).  std's own implementation initialises an 8 KiB stack
/// buffer element by element (`[MaybeUninit<u8>]::fill_with`), which CBMC does not get through
/// in 90 min; this one reads through a 4-byte buffer, so a skipped region of 6 bytes takes two
/// reads plus the terminating empty one.
pub fn copy_stub<R: ?Sized + std::io::Read, W: ?Sized + std::io::Write>(reader: &mut R, writer: &mut W) -> std::io::Result<u64> {
	let mut buf = [0u8; 4];
	let mut total = 0u64;
	loop {
		let n = reader.read(&mut buf)?;
		if n == 0 {
			return Ok(total);
		}
		writer.write_all(&buf[..n])?;
		total += n as u64;
	}
}
