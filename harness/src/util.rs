//! Shared helpers for the harnesses.

/// Stand-in for `alloc::fmt::format`: error-message text is never part of a property.
pub fn format_stub(_args: core::fmt::Arguments<'_>) -> String {
	String::new()
}

/// Stand-in for `RandomState::new`: SipHash keys are environment randomness.
pub fn random_state_stub() -> std::hash::RandomState {
	unsafe { core::mem::transmute([0u64; 2]) }
}
