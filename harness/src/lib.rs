//! Kani proof harnesses over the real peppi code (path dependency on /repo).
//! Every harness is preceded by a `// @verif` block that tools/check.py parses.
#![allow(dead_code, unused_imports, unused_variables, unused_mut, clippy::all)]

#[cfg(any(kani, test))]
mod util;

#[cfg(any(kani, test))]
mod c20;
