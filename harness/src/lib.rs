//! Kani proof harnesses over the real peppi code (path dependency on /repo).
//! Every harness is preceded by a `// @verif` block that tools/check.py parses.
#![allow(non_snake_case, dead_code, unused_imports, unused_variables, unused_mut, clippy::all)]

#[cfg(kani)]
mod util;

#[cfg(kani)]
mod c20;
#[cfg(kani)]
mod c10;
#[cfg(kani)]
mod c04p;
#[cfg(kani)]
mod c01;
#[cfg(kani)]
mod c07;
#[cfg(kani)]
mod gen_c01;
#[cfg(kani)]
mod c08;
#[cfg(kani)]
mod c06;
#[cfg(kani)]
mod steps;
#[cfg(kani)]
mod gen_c04;
#[cfg(kani)]
mod gen_c05;
#[cfg(kani)]
mod gen_c13;
#[cfg(kani)]
mod c11;
#[cfg(kani)]
mod c13;
#[cfg(kani)]
mod c15;
#[cfg(kani)]
mod c19;
#[cfg(kani)]
mod c09;
#[cfg(kani)]
mod gen_c03;
#[cfg(kani)]
mod probe;
