//! C07 – truncation: every reader unit handed fewer bytes than it needs returns an error and
//! leaves the parsed columns untouched.
use crate::gen_c03::*;
use crate::steps::*;
use crate::util::*;
use arrow2::array::MutableArray;
use core::mem::forget;
use peppi::game::Game as _;
use peppi::io::slippi::de::verif::game_start;
use peppi::io::slippi::de::{parse_event, parse_header, ParseState};
use peppi::io::slippi::Version;
use std::borrow::Cow;

// @verif property=C07,C06 tier=quick mem=10 timeout=1200
// @encodes peppi::io::slippi::de::parse_header, peppi::io::expect_bytes on a stream of fewer than 15 bytes
// @symbolic 124 stream length (0..=14) and bytes
// @bound the 15-byte file header (signature + raw length)
// @stub alloc::fmt::format = returns an empty String
#[kani::proof]
#[kani::unwind(16)]
#[kani::stub(alloc::fmt::format, format_stub)]
fn c07_header_cut() {
	let b: [u8; 15] = kani::any();
	let n: usize = kani::any();
	kani::assume(n < 15);
	let res = parse_header(&b[..n], None);
	assert!(res.is_err());
	kani::cover!(n == 14, "one byte short");
	kani::cover!(n == 0, "empty file");
	forget(res);
}

const SIG: [u8; 11] = [0x7b, 0x55, 0x03, 0x72, 0x61, 0x77, 0x5b, 0x24, 0x55, 0x23, 0x6c];

// @verif property=C07,C06,C01 tier=quick mem=10 timeout=1200
// @encodes peppi::io::slippi::de::parse_header, peppi::io::expect_bytes on a full 15-byte header
// @symbolic 120 all 15 bytes
// @bound the 15-byte file header
// @assume oracle: the UBJSON prefix `{U\x03raw[$U#l` followed by a big-endian u32 (Slippi spec)
// @stub alloc::fmt::format = returns an empty String
#[kani::proof]
#[kani::unwind(16)]
#[kani::stub(alloc::fmt::format, format_stub)]
fn c07_header_full() {
	let b: [u8; 15] = kani::any();
	let res = parse_header(&b[..], None);
	let mut sig_ok = true;
	let mut i = 0;
	while i < 11 {
		if b[i] != SIG[i] {
			sig_ok = false;
		}
		i += 1;
	}
	match &res {
		Ok(len) => {
			assert!(sig_ok);
			assert!(*len == u32::from_be_bytes([b[11], b[12], b[13], b[14]]));
		}
		Err(_) => assert!(!sig_ok),
	}
	kani::cover!(res.is_ok(), "accepted");
	kani::cover!(res.is_err() && b[0] == 0x7b && b[10] != 0x6c, "wrong last signature byte");
	forget(res);
}

fn expect_case<const L: usize, const B: usize>(expected: [u8; L]) -> (bool, bool) {
	// B = L + 2 stream bytes, of which the first n are available
	let b: [u8; B] = kani::any();
	let n: usize = kani::any();
	kani::assume(n <= B);
	let mut r = &b[..n];
	let res = peppi::io::verif::expect_bytes(&mut r, &expected[..]);
	let mut same = n >= L;
	let mut i = 0;
	while i < L {
		if i < n && b[i] != expected[i] {
			same = false;
		}
		i += 1;
	}
	// Ok exactly when the stream holds all the expected bytes; a stream that ends early is an error
	assert!(res.is_ok() == same);
	if n < L {
		assert!(res.is_err());
	}
	if res.is_ok() {
		// and exactly those bytes were consumed
		assert!(r.len() == n - L);
	}
	let flags = (res.is_ok(), res.is_err() && n + 1 == L);
	forget(res);
	flags
}

// @verif property=C07,C06 tier=quick mem=10 timeout=1200
// @encodes peppi::io::expect_bytes (file signature, `metadata` key, the closing `}` that is the last read of a .slp file, the Arrow magic of .slpp frames)
// @symbolic 330 stream length (0..=expected+2) and all stream bytes, for the four expected sequences peppi uses
// @bound expected sequences of 1, 8, 10 and 11 bytes; streams of up to expected+2 bytes
// @assume oracle: Ok iff the stream has at least expected.len() bytes and they are equal; Err on any shorter stream; exactly expected.len() bytes consumed
// @stub alloc::fmt::format = returns an empty String
#[kani::proof]
#[kani::unwind(16)]
#[kani::stub(alloc::fmt::format, format_stub)]
fn c07_expect_bytes_total() {
	let (ok1, short1) = expect_case::<1, 3>([0x7d]);
	let (ok8, short8) = expect_case::<8, 10>([65, 82, 82, 79, 87, 49, 0, 0]);
	let (ok10, short10) = expect_case::<10, 12>([0x08, 0x6d, 0x65, 0x74, 0x61, 0x64, 0x61, 0x74, 0x61, 0x7b]);
	let (ok11, short11) = expect_case::<11, 13>(SIG);
	kani::cover!(ok1 && ok8 && ok10 && ok11, "all four accepted");
	kani::cover!(short1, "closing brace missing: empty stream");
	kani::cover!(short8 && short10 && short11, "one byte short");
}

fn event_cut(code: u8, cut: Cut) {
	let v = Version(3, 16, 0);
	let mut state = free_state(v);
	let a: i32 = kani::any();
	// a frame is open (so Item / Frame End would be legal)
	let mut s0: [u8; 13] = kani::any();
	s0[0] = 0x3A;
	put_id(&mut s0, a);
	let r = parse_event(&s0[..], &mut state, None);
	assert!(r.is_ok());
	forget(r);
	let f = state.frames();
	let before = (f.id.len(), f.start.as_ref().map_or(0, |s| s.len()), f.end.as_ref().map_or(0, |s| s.len()), f.item.as_ref().map_or(0, |s| s.len()), state.bytes_read());
	let mut ev: [u8; 45] = kani::any();
	ev[0] = code;
	put_id(&mut ev, a);
	let full = 1 + state.verif_payload_size(code).unwrap_or(0) as usize;
	// the cut position is concrete per call (a slice of symbolic length makes every read of
	// the parser fallible and exhausts memory); the callers cover 0, 1, the middle and full-1
	let n = match cut {
		Cut::Empty => 0,
		Cut::AfterCode => 1,
		Cut::Middle => full / 2,
		Cut::OneShort => full - 1,
	};
	let res = parse_event(&ev[..n], &mut state, None);
	// the stream ended inside the event: an error, and nothing was added to any column
	assert!(res.is_err());
	let f = state.frames();
	let after = (f.id.len(), f.start.as_ref().map_or(0, |s| s.len()), f.end.as_ref().map_or(0, |s| s.len()), f.item.as_ref().map_or(0, |s| s.len()), state.bytes_read());
	assert!(before == after);
	kani::cover!(true, "reached");
	forget(res);
	forget(state);
}

#[derive(Clone, Copy)]
enum Cut {
	Empty,
	AfterCode,
	Middle,
	OneShort,
}

// @verif property=C07,C06 tier=quick mem=12 timeout=1800
// @encodes peppi::io::slippi::de::parse_event on a stream that ends inside an Item event
// @symbolic 456 open frame's id/payload, the event bytes; cut positions: one byte short and right after the event code
// @bound port-free 3.16 state with one open frame; one truncated event
// @stub alloc::fmt::format = returns an empty String
// @stub std::hash::RandomState::new = fixed keys
// @cbmc --max-field-sensitivity-array-size 512
#[kani::proof]
#[kani::unwind(10)]
#[kani::stub(alloc::fmt::format, format_stub)]
#[kani::stub(std::hash::RandomState::new, random_state_stub)]
fn c07_event_cut_item() {
	event_cut(0x3B, Cut::OneShort);
	event_cut(0x3B, Cut::AfterCode);
}

// @verif property=C07,C06 tier=quick mem=12 timeout=1800
// @encodes peppi::io::slippi::de::parse_event on a stream that ends inside a Frame End event
// @symbolic 168 open frame's id/payload, the event bytes; cut positions: one byte short and before the event code
// @bound port-free 3.16 state with one open frame; one truncated event
// @stub alloc::fmt::format = returns an empty String
// @stub std::hash::RandomState::new = fixed keys
// @cbmc --max-field-sensitivity-array-size 512
#[kani::proof]
#[kani::unwind(10)]
#[kani::stub(alloc::fmt::format, format_stub)]
#[kani::stub(std::hash::RandomState::new, random_state_stub)]
fn c07_event_cut_end() {
	event_cut(0x3C, Cut::OneShort);
	event_cut(0x3C, Cut::Empty);
}

// @verif property=C07,C06 tier=thorough mem=12 timeout=1800
// @encodes peppi::io::slippi::de::parse_event on a stream that ends inside a Frame Start event
// @symbolic 600 open frame's id/payload, the event bytes; cut positions: middle and one byte short (Frame Start), middle and empty (Item)
// @bound port-free 3.16 state with one open frame; one truncated event
// @stub alloc::fmt::format = returns an empty String
// @stub std::hash::RandomState::new = fixed keys
// @cbmc --max-field-sensitivity-array-size 512
#[kani::proof]
#[kani::unwind(10)]
#[kani::stub(alloc::fmt::format, format_stub)]
#[kani::stub(std::hash::RandomState::new, random_state_stub)]
fn c07_event_cut_start() {
	event_cut(0x3A, Cut::Middle);
	event_cut(0x3A, Cut::OneShort);
	event_cut(0x3B, Cut::Middle);
	event_cut(0x3B, Cut::Empty);
}
