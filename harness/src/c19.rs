//! C19 – Shift-JIS name fields and normalisation.
use crate::util::*;
use core::mem::forget;
use peppi::game::shift_jis::{verif::fix_char, MeleeString};
use std::borrow::Cow;

/// The mapping as the property states it.
fn expected(c: char) -> u32 {
	let u = c as u32;
	if u >= 0xFF01 && u <= 0xFF5E {
		// full-width form -> the ASCII character of the same shape: '!' (0x21) .. '~' (0x7E)
		0x21 + (u - 0xFF01)
	} else if u == 0x3000 {
		0x20
	} else if u == 0x2019 {
		0x27
	} else if u == 0x201D {
		0x22
	} else {
		u
	}
}

// @verif property=C19 tier=quick mem=8 timeout=600
// @encodes peppi::game::shift_jis::fix_char
// @symbolic 21 one Unicode scalar value (every `char`)
// @bound none - complete over all Unicode scalar values, including idempotence and panic freedom of char::try_from(..).unwrap()
#[kani::proof]
fn c19_fix_char_total() {
	let c: char = kani::any();
	let f = fix_char(c);
	assert!(f as u32 == expected(c));
	assert!(fix_char(f) == f);
	kani::cover!(c as u32 == 0xFF01, "lower edge of the full-width range");
	kani::cover!(c as u32 == 0xFF5E, "upper edge of the full-width range");
	kani::cover!(c as u32 == 0xFF5F, "just above the range");
	kani::cover!(c as u32 == 0x3000, "ideographic space");
	kani::cover!(c as u32 > 0xFFFF, "astral");
}

static mut DEC_CALLS: u32 = 0;
static mut DEC_PTR: usize = 0;
static mut DEC_LEN: usize = 0;
static mut DEC_NONE: bool = false;

/// Recorder standing in for the Shift-JIS decoder: notes which byte range it was handed and
/// returns either "invalid" or a fixed marker string, as decided by the harness.
fn decoder_stub<'a>(_enc: &'static encoding_rs::Encoding, bytes: &'a [u8]) -> Option<Cow<'a, str>> {
	unsafe {
		DEC_CALLS += 1;
		DEC_PTR = bytes.as_ptr() as usize;
		DEC_LEN = bytes.len();
		if DEC_NONE {
			None
		} else {
			Some(Cow::Borrowed("ok"))
		}
	}
}

fn nul_cut<const N: usize>() {
	let field: [u8; N] = kani::any();
	unsafe {
		DEC_CALLS = 0;
		DEC_NONE = kani::any();
	}
	// first NUL, by definition
	let mut first_nul = N;
	let mut i = N;
	while i > 0 {
		i -= 1;
		if field[i] == 0 {
			first_nul = i;
		}
	}
	let r = MeleeString::try_from(&field[..]);
	unsafe {
		// decoded exactly once, from the first byte up to but excluding the first NUL:
		// nothing after the NUL ever reaches the decoder
		assert!(DEC_CALLS == 1);
		assert!(DEC_PTR == field.as_ptr() as usize);
		assert!(DEC_LEN == first_nul);
		match &r {
			// an invalid sequence is an error, never a replacement character
			Err(_) => assert!(DEC_NONE),
			Ok(s) => {
				assert!(!DEC_NONE);
				assert!(s.0.len() == 2 && s.0.as_bytes()[0] == b'o' && s.0.as_bytes()[1] == b'k');
			}
		}
	}
	kani::cover!(first_nul == 0, "NUL first");
	kani::cover!(first_nul == N, "no NUL");
	kani::cover!(first_nul + 1 < N && field[N - 1] != 0, "garbage after the NUL");
	forget(r);
}

// @verif property=C19 tier=quick mem=12 timeout=1200
// @encodes impl TryFrom<&[u8]> for peppi::game::shift_jis::MeleeString (16-byte name-tag field)
// @symbolic 129 all 16 field bytes; decoder verdict
// @bound field width 16; the decoder itself is replaced by a recorder
// @stub encoding_rs::Encoding::decode_without_bom_handling_and_without_replacement = recorder returning nondeterministically None or a marker string
// @stub alloc::fmt::format = returns an empty String
// @replay twin=c19_nul_cut_16_twin
#[kani::proof]
#[kani::unwind(18)]
#[kani::stub(alloc::fmt::format, format_stub)]
#[kani::stub(encoding_rs::Encoding::decode_without_bom_handling_and_without_replacement, decoder_stub)]
fn c19_nul_cut_16() {
	nul_cut::<16>();
}

// @verif property=C19 tier=quick mem=12 timeout=1200
// @encodes impl TryFrom<&[u8]> for MeleeString (10-byte connect-code field)
// @symbolic 81 all 10 field bytes; decoder verdict
// @bound field width 10; decoder replaced by a recorder
// @stub encoding_rs::Encoding::decode_without_bom_handling_and_without_replacement = recorder
// @stub alloc::fmt::format = returns an empty String
// @replay twin=c19_nul_cut_10_twin
#[kani::proof]
#[kani::unwind(12)]
#[kani::stub(alloc::fmt::format, format_stub)]
#[kani::stub(encoding_rs::Encoding::decode_without_bom_handling_and_without_replacement, decoder_stub)]
fn c19_nul_cut_10() {
	nul_cut::<10>();
}

// @verif property=C19 tier=quick mem=12 timeout=1800
// @encodes impl TryFrom<&[u8]> for MeleeString (31-byte netplay-name field)
// @symbolic 249 all 31 field bytes; decoder verdict
// @bound field width 31; decoder replaced by a recorder
// @stub encoding_rs::Encoding::decode_without_bom_handling_and_without_replacement = recorder
// @stub alloc::fmt::format = returns an empty String
// @replay twin=c19_nul_cut_31_twin
#[kani::proof]
#[kani::unwind(33)]
#[kani::stub(alloc::fmt::format, format_stub)]
#[kani::stub(encoding_rs::Encoding::decode_without_bom_handling_and_without_replacement, decoder_stub)]
fn c19_nul_cut_31() {
	nul_cut::<31>();
}

/// Native twin of `nul_cut` (replay target: the harness's oracle is a stub).  Consumes the same
/// solver-chosen values and checks the property with the real decoder: the result depends only
/// on the bytes before the first NUL, and never contains a replacement character.
fn nul_cut_twin<const N: usize>() {
	let field: [u8; N] = kani::any();
	let _decoder_verdict: bool = kani::any();
	let first_nul = field.iter().position(|&x| x == 0).unwrap_or(N);
	let whole = MeleeString::try_from(&field[..]);
	let prefix = MeleeString::try_from(&field[..first_nul]);
	match (&whole, &prefix) {
		(Ok(a), Ok(b)) => {
			assert!(a.0 == b.0, "bytes after the first NUL influenced the result");
			assert!(!a.0.contains('\u{FFFD}'), "replacement character instead of an error");
			assert!(!a.0.contains('\0'), "NUL inside the decoded string");
		}
		(Err(_), Err(_)) => {}
		_ => panic!("bytes after the first NUL decided between Ok and Err"),
	}
}

pub fn c19_nul_cut_16_twin() {
	nul_cut_twin::<16>();
}

pub fn c19_nul_cut_10_twin() {
	nul_cut_twin::<10>();
}

pub fn c19_nul_cut_31_twin() {
	nul_cut_twin::<31>();
}
