//! C04 / C06 / C12 – port-bearing `parse_event` steps (Frame Pre / Frame Post, presence and
//! validity, null padding at frame close) on a one-port state whose column set is a typed
//! stack object (see util::typed_ports / steps::one_port_state).
use crate::gen_c03::*;
use crate::steps::*;
use crate::util::*;
use arrow2::array::MutableArray;
use core::mem::forget;
use peppi::game::Port;
use peppi::io::slippi::de::{parse_event, ParseState};
use peppi::io::slippi::Version;

fn step(state: &mut ParseState, ev: &[u8], code: u8) {
	let r = parse_event(ev, state, None);
	match &r {
		Ok(c) => assert!(*c == code),
		Err(_) => assert!(false),
	}
	forget(r);
}

fn bit(v: &Option<arrow2::bitmap::MutableBitmap>, i: usize, len: usize) -> bool {
	match v {
		// `None` means "all valid"
		None => true,
		Some(b) => {
			assert!(b.len() == len);
			b.get(i)
		}
	}
}

// @verif property=C04,C01:thorough,C12:thorough tier=quick mem=16 timeout=3000
// @encodes peppi::io::slippi::de::parse_event (Frame Pre / Frame Post arms, old framing without Frame Start/End events), ParseState::{frame_open, frame_close}, mutable::{Data, Pre, Post}::{read_push, push_null}
// @symbolic 2000 all Pre/Post payload bytes of 6 events
// @bound version 0.1.0 (no Frame Start / Frame End events: frames are delimited by the frame id of Frame Pre), one port holding Ice Climbers, two consecutive frames: the follower is absent from the first and present in the second
// @assume state built by ParseState::verif_from_parts; the port's column set is a typed stack object instead of a heap buffer; the final frame_close() that read() performs for versions < 3.0 is called through a hook
// @stub alloc::fmt::format = returns an empty String
// @stub std::hash::RandomState::new = fixed keys
// @cbmc --max-field-sensitivity-array-size 512
#[kani::proof]
#[kani::unwind(8)]
#[kani::stub(alloc::fmt::format, format_stub)]
#[kani::stub(std::hash::RandomState::new, random_state_stub)]
fn c04_port_r1_absent_then_present() {
	let v = Version(0, 1, 0);
	let mut store = new_port(v, Port::P2, true);
	let mut state = one_port_state(v, &mut store, Port::P2);
	const PRE: usize = 1 + 6 + 52;
	const POST: usize = 1 + 6 + 27;
	let a = -123i32;
	let b = -122i32;
	// frame a: leader only
	let mut pre_a_l: [u8; PRE] = kani::any();
	put_port_header(&mut pre_a_l, 0x37, a, 1, false);
	step(&mut state, &pre_a_l, 0x37);
	let mut post_a_l: [u8; POST] = kani::any();
	put_port_header(&mut post_a_l, 0x38, a, 1, false);
	step(&mut state, &post_a_l, 0x38);
	// frame b: leader and follower
	let mut pre_b_l: [u8; PRE] = kani::any();
	put_port_header(&mut pre_b_l, 0x37, b, 1, false);
	step(&mut state, &pre_b_l, 0x37);
	let mut pre_b_f: [u8; PRE] = kani::any();
	put_port_header(&mut pre_b_f, 0x37, b, 1, true);
	step(&mut state, &pre_b_f, 0x37);
	let mut post_b_l: [u8; POST] = kani::any();
	put_port_header(&mut post_b_l, 0x38, b, 1, false);
	step(&mut state, &post_b_l, 0x38);
	let mut post_b_f: [u8; POST] = kani::any();
	put_port_header(&mut post_b_f, 0x38, b, 1, true);
	step(&mut state, &post_b_f, 0x38);
	assert!(state.bytes_read() == 3 * PRE + 3 * POST);
	// end of stream: read() closes the dangling frame
	state.verif_frame_close();

	let f = state.frames();
	assert!(f.id.len() == 2);
	assert!(f.id.values()[0] == a && f.id.values()[1] == b);
	let p = &f.ports[0];
	// every column of every character has exactly one entry per frame row
	assert!(p.leader.pre.len() == 2 && p.leader.post.len() == 2);
	match p.follower.as_ref() {
		Some(fo) => {
			assert!(fo.pre.len() == 2 && fo.post.len() == 2);
			// present exactly in the rows where the character had events
			assert!(!bit(&fo.validity, 0, 2));
			assert!(bit(&fo.validity, 1, 2));
			// its values sit in that row: row 1 holds frame b's follower payloads
			assert!(fo.pre.random_seed.values()[1] == u32::from_be_bytes([pre_b_f[7], pre_b_f[8], pre_b_f[9], pre_b_f[10]]));
			assert!(fo.pre.state.values()[1] == u16::from_be_bytes([pre_b_f[11], pre_b_f[12]]));
			assert!(fo.post.character.values()[1] == post_b_f[7]);
			assert!(fo.post.stocks.values()[1] == post_b_f[7 + 26]);
		}
		None => assert!(false),
	}
	assert!(bit(&p.leader.validity, 0, 2) && bit(&p.leader.validity, 1, 2));
	assert!(p.leader.pre.random_seed.values()[0] == u32::from_be_bytes([pre_a_l[7], pre_a_l[8], pre_a_l[9], pre_a_l[10]]));
	assert!(p.leader.pre.random_seed.values()[1] == u32::from_be_bytes([pre_b_l[7], pre_b_l[8], pre_b_l[9], pre_b_l[10]]));
	assert!(p.leader.post.character.values()[0] == post_a_l[7]);
	assert!(p.leader.post.character.values()[1] == post_b_l[7]);
	kani::cover!(true, "reached");
}

// @verif property=C08,C04:thorough tier=quick mem=16 timeout=3000
// @encodes peppi::io::slippi::de::parse_event: an unknown event (declared in the payload table) between the Frame Pre events of the two climbers of a pre-3.0 replay is a no-op - it neither closes nor opens a frame
// @symbolic 1350 Pre/Post payload bytes of 4 events, the unknown events' payloads
// @bound version 0.1.0 (frames delimited by Frame Pre ids), one port holding Ice Climbers, one frame; unknown events (1-byte and 8-byte payload) after the leader's Frame Pre and after the follower's Frame Pre
// @assume state built by ParseState::verif_from_parts; the port's column set is a typed stack object; the final frame_close() of read() is called through a hook
// @stub alloc::fmt::format = returns an empty String
// @stub std::hash::RandomState::new = fixed keys
// @cbmc --max-field-sensitivity-array-size 512
#[kani::proof]
#[kani::unwind(8)]
#[kani::stub(alloc::fmt::format, format_stub)]
#[kani::stub(std::hash::RandomState::new, random_state_stub)]
fn c08_unknown_inside_open_frame_v0_1() {
	let v = Version(0, 1, 0);
	let mut store = new_port(v, Port::P2, true);
	let mut state = one_port_state(v, &mut store, Port::P2);
	const PRE: usize = 1 + 6 + 52;
	const POST: usize = 1 + 6 + 27;
	let a = -123i32;
	let mut pre_l: [u8; PRE] = kani::any();
	put_port_header(&mut pre_l, 0x37, a, 1, false);
	step(&mut state, &pre_l, 0x37);
	let mut u1: [u8; 2] = kani::any();
	u1[0] = UNKNOWN_A;
	step(&mut state, &u1, UNKNOWN_A);
	let mut pre_f: [u8; PRE] = kani::any();
	put_port_header(&mut pre_f, 0x37, a, 1, true);
	step(&mut state, &pre_f, 0x37);
	let mut u2: [u8; 9] = kani::any();
	u2[0] = UNKNOWN_B;
	step(&mut state, &u2, UNKNOWN_B);
	let mut post_l: [u8; POST] = kani::any();
	put_port_header(&mut post_l, 0x38, a, 1, false);
	step(&mut state, &post_l, 0x38);
	let mut post_f: [u8; POST] = kani::any();
	put_port_header(&mut post_f, 0x38, a, 1, true);
	step(&mut state, &post_f, 0x38);
	assert!(state.bytes_read() == 2 * PRE + 2 * POST + 2 + 9);
	state.verif_frame_close();

	let f = state.frames();
	assert!(f.id.len() == 1 && f.id.values()[0] == a);
	let p = &f.ports[0];
	assert!(p.leader.pre.len() == 1 && p.leader.post.len() == 1);
	assert!(bit(&p.leader.validity, 0, 1));
	assert!(p.leader.pre.random_seed.values()[0] == u32::from_be_bytes([pre_l[7], pre_l[8], pre_l[9], pre_l[10]]));
	match p.follower.as_ref() {
		Some(fo) => {
			// one row, present, holding the follower's own payloads
			assert!(fo.pre.len() == 1 && fo.post.len() == 1);
			assert!(bit(&fo.validity, 0, 1));
			assert!(fo.pre.random_seed.values()[0] == u32::from_be_bytes([pre_f[7], pre_f[8], pre_f[9], pre_f[10]]));
			assert!(fo.post.character.values()[0] == post_f[7]);
		}
		None => assert!(false),
	}
	kani::cover!(true, "reached");
}

// @verif property=C04,C12:thorough tier=quick mem=16 timeout=3000
// @encodes peppi::io::slippi::de::parse_event (Frame Start, Frame Pre, Frame Post, Frame End arms), ParseState::frame_close null padding, mutable::Data::push_null
// @symbolic 2600 all payload bytes of 7 events (frame ids concrete: symbolic ids make every column length symbolic and the null-padding loops do not finish, > 45 min; arbitrary ids incl. rollbacks are decided on the port-free skeleton, gen_c04)
// @bound version 3.16.0, one port (not Ice Climbers), two frame occurrences: the character is present in the first and absent from the second (consecutive ids -123, -122; the rollback variant is a separate harness)
// @assume state built by ParseState::verif_from_parts; the port's column set is a typed stack object
// @stub alloc::fmt::format = returns an empty String
// @stub std::hash::RandomState::new = fixed keys
// @cbmc --max-field-sensitivity-array-size 512
#[kani::proof]
#[kani::unwind(8)]
#[kani::stub(alloc::fmt::format, format_stub)]
#[kani::stub(std::hash::RandomState::new, random_state_stub)]
fn c04_port_r3_present_then_absent() {
	c04_port_r3_present_then_absent_case(-123, -122);
	kani::cover!(true, "reached");
}

fn c04_port_r3_present_then_absent_case(a: i32, b: i32) {
	let v = Version(3, 16, 0);
	let mut store = new_port(v, Port::P3, false);
	let mut state = one_port_state(v, &mut store, Port::P3);
	const PRE: usize = 1 + 6 + 58;
	const POST: usize = 1 + 6 + 78;
	let mut s_a: [u8; 13] = kani::any();
	s_a[0] = 0x3A;
	put_id(&mut s_a, a);
	step(&mut state, &s_a, 0x3A);
	let mut pre_a: [u8; PRE] = kani::any();
	put_port_header(&mut pre_a, 0x37, a, 2, false);
	step(&mut state, &pre_a, 0x37);
	let mut post_a: [u8; POST] = kani::any();
	put_port_header(&mut post_a, 0x38, a, 2, false);
	step(&mut state, &post_a, 0x38);
	let mut e_a: [u8; 9] = kani::any();
	e_a[0] = 0x3C;
	put_id(&mut e_a, a);
	step(&mut state, &e_a, 0x3C);
	// second occurrence: no character events at all
	let mut s_b: [u8; 13] = kani::any();
	s_b[0] = 0x3A;
	put_id(&mut s_b, b);
	step(&mut state, &s_b, 0x3A);
	let mut e_b: [u8; 9] = kani::any();
	e_b[0] = 0x3C;
	put_id(&mut e_b, b);
	step(&mut state, &e_b, 0x3C);

	let f = state.frames();
	assert!(f.id.len() == 2 && f.id.values()[0] == a && f.id.values()[1] == b);
	let p = &f.ports[0];
	assert!(p.port == Port::P3);
	assert!(p.follower.is_none());
	assert!(p.leader.pre.len() == 2 && p.leader.post.len() == 2);
	assert!(bit(&p.leader.validity, 0, 2));
	assert!(!bit(&p.leader.validity, 1, 2));
	assert!(p.leader.pre.random_seed.values()[0] == u32::from_be_bytes([pre_a[7], pre_a[8], pre_a[9], pre_a[10]]));
	assert!(p.leader.pre.raw_analog_y.as_ref().map(|c| c.values()[0]) == Some(pre_a[7 + 57] as i8));
	assert!(p.leader.post.character.values()[0] == post_a[7]);
	assert!(p.leader.post.instance_id.as_ref().map(|c| c.values()[0]) == Some(u16::from_be_bytes([post_a[7 + 76], post_a[7 + 77]])));
	match (f.start.as_ref(), f.end.as_ref()) {
		(Some(s), Some(e)) => assert!(s.len() == 2 && e.len() == 2),
		_ => assert!(false),
	}
}

fn port_event(code: u8, ics: bool, open_frame: bool, port: u8, follower: bool) {
	let v = Version(3, 16, 0);
	let mut store = new_port(v, Port::P2, ics);
	let mut state = one_port_state(v, &mut store, Port::P2);
	let a: i32 = kani::any();
	if open_frame {
		let mut s_a: [u8; 13] = kani::any();
		s_a[0] = 0x3A;
		put_id(&mut s_a, a);
		step(&mut state, &s_a, 0x3A);
	}
	// arbitrary frame id and payload; the port byte and follower flag are concrete per call (a
	// symbolic port index turns every column access into a symbolic pointer: > 19 min)
	let mut ev: [u8; 85] = kani::any();
	ev[0] = code;
	ev[5] = port;
	ev[6] = follower as u8;
	let n = 1 + state.verif_payload_size(code).unwrap_or(1) as usize;
	let before = state.bytes_read();
	let res = parse_event(&ev[..n], &mut state, None);
	if res.is_ok() {
		assert!(state.bytes_read() >= before + 2);
	}
	forget(res);
}

// @verif property=C06 tier=quick mem=10 timeout=2400
// @encodes peppi::io::slippi::de::parse_event Frame Pre arm: event addressed to the occupied port, arbitrary frame id
// @symbolic 700 open frame's id and payload; frame id and payload of the event
// @bound 3.16 state, one occupied port (P2, not Ice Climbers), one open frame, one event; port byte 1 and follower flag false are concrete (a symbolic port index turns every column access into a symbolic pointer: > 19 min)
// @assume the port's column set is a typed stack object
// @stub alloc::fmt::format = returns an empty String
// @stub std::hash::RandomState::new = fixed keys
// @cbmc --max-field-sensitivity-array-size 512
#[kani::proof]
#[kani::unwind(8)]
#[kani::stub(alloc::fmt::format, format_stub)]
#[kani::stub(std::hash::RandomState::new, random_state_stub)]
fn c06_nopanic_pre_addressed() {
	port_event(0x37, false, true, 1, false);
	kani::cover!(true, "returned");
}

// @verif property=C06 tier=thorough mem=24 timeout=2400
// @encodes peppi::io::slippi::de::parse_event Frame Pre arm: event addressed to follower flag set for a port that does not hold Ice Climbers
// @symbolic 700 open frame's id and payload; frame id and payload of the event
// @bound 3.16 state, one occupied port (P2, not Ice Climbers), one open frame, one event; port byte 1 and follower flag true are concrete (a symbolic port index turns every column access into a symbolic pointer: > 19 min)
// @assume the port's column set is a typed stack object
// @stub alloc::fmt::format = returns an empty String
// @stub std::hash::RandomState::new = fixed keys
// @cbmc --max-field-sensitivity-array-size 512
#[kani::proof]
#[kani::unwind(8)]
#[kani::stub(alloc::fmt::format, format_stub)]
#[kani::stub(std::hash::RandomState::new, random_state_stub)]
fn c06_nopanic_pre_follower_non_ics() {
	port_event(0x37, false, true, 1, true);
	kani::cover!(true, "returned");
}

// @verif property=C06 tier=thorough mem=24 timeout=2400
// @encodes peppi::io::slippi::de::parse_event Frame Pre arm: event addressed to a port that is not occupied
// @symbolic 700 open frame's id and payload; frame id and payload of the event
// @bound 3.16 state, one occupied port (P2, not Ice Climbers), one open frame, one event; port byte 0 and follower flag false are concrete (a symbolic port index turns every column access into a symbolic pointer: > 19 min)
// @assume the port's column set is a typed stack object
// @stub alloc::fmt::format = returns an empty String
// @stub std::hash::RandomState::new = fixed keys
// @cbmc --max-field-sensitivity-array-size 512
#[kani::proof]
#[kani::unwind(8)]
#[kani::stub(alloc::fmt::format, format_stub)]
#[kani::stub(std::hash::RandomState::new, random_state_stub)]
fn c06_nopanic_pre_unoccupied() {
	port_event(0x37, false, true, 0, false);
	kani::cover!(true, "returned");
}

// @verif property=C06 tier=quick mem=10 timeout=2400
// @encodes peppi::io::slippi::de::parse_event Frame Post arm: event addressed to the occupied port, arbitrary frame id
// @symbolic 860 open frame's id and payload; frame id and payload of the event
// @bound 3.16 state, one occupied port (P2, not Ice Climbers), one open frame, one event; port byte 1 and follower flag false are concrete (a symbolic port index turns every column access into a symbolic pointer: > 19 min)
// @assume the port's column set is a typed stack object
// @stub alloc::fmt::format = returns an empty String
// @stub std::hash::RandomState::new = fixed keys
// @cbmc --max-field-sensitivity-array-size 512
#[kani::proof]
#[kani::unwind(8)]
#[kani::stub(alloc::fmt::format, format_stub)]
#[kani::stub(std::hash::RandomState::new, random_state_stub)]
fn c06_nopanic_post_addressed() {
	port_event(0x38, false, true, 1, false);
	kani::cover!(true, "returned");
}

// @verif property=C06 tier=thorough mem=24 timeout=2400
// @encodes peppi::io::slippi::de::parse_event Frame Post arm: event addressed to follower flag set for a port that does not hold Ice Climbers
// @symbolic 860 open frame's id and payload; frame id and payload of the event
// @bound 3.16 state, one occupied port (P2, not Ice Climbers), one open frame, one event; port byte 1 and follower flag true are concrete (a symbolic port index turns every column access into a symbolic pointer: > 19 min)
// @assume the port's column set is a typed stack object
// @stub alloc::fmt::format = returns an empty String
// @stub std::hash::RandomState::new = fixed keys
// @cbmc --max-field-sensitivity-array-size 512
#[kani::proof]
#[kani::unwind(8)]
#[kani::stub(alloc::fmt::format, format_stub)]
#[kani::stub(std::hash::RandomState::new, random_state_stub)]
fn c06_nopanic_post_follower_non_ics() {
	port_event(0x38, false, true, 1, true);
	kani::cover!(true, "returned");
}

// @verif property=C06 tier=thorough mem=24 timeout=2400
// @encodes peppi::io::slippi::de::parse_event Frame Post arm: event addressed to a port that is not occupied
// @symbolic 860 open frame's id and payload; frame id and payload of the event
// @bound 3.16 state, one occupied port (P2, not Ice Climbers), one open frame, one event; port byte 0 and follower flag false are concrete (a symbolic port index turns every column access into a symbolic pointer: > 19 min)
// @assume the port's column set is a typed stack object
// @stub alloc::fmt::format = returns an empty String
// @stub std::hash::RandomState::new = fixed keys
// @cbmc --max-field-sensitivity-array-size 512
#[kani::proof]
#[kani::unwind(8)]
#[kani::stub(alloc::fmt::format, format_stub)]
#[kani::stub(std::hash::RandomState::new, random_state_stub)]
fn c06_nopanic_post_unoccupied() {
	port_event(0x38, false, true, 0, false);
	kani::cover!(true, "returned");
}

// @verif property=C06 tier=thorough mem=16 timeout=3000
// @encodes peppi::io::slippi::de::parse_event Frame Post arm before any frame was opened
// @symbolic 860 the event
// @bound 3.16 state, one occupied port, no frame yet, one Frame Post event
// @assume the port's column set is a typed stack object
// @stub alloc::fmt::format = returns an empty String
// @stub std::hash::RandomState::new = fixed keys
// @cbmc --max-field-sensitivity-array-size 512
#[kani::proof]
#[kani::unwind(8)]
#[kani::stub(alloc::fmt::format, format_stub)]
#[kani::stub(std::hash::RandomState::new, random_state_stub)]
fn c06_nopanic_post_no_frame() {
	port_event(0x38, false, false, 1, false);
	kani::cover!(true, "reached");
}

// @verif property=C06 tier=thorough mem=16 timeout=3000
// @encodes peppi::io::slippi::de::parse_event Frame Pre arm before any frame was opened (3.16: frames are opened by Frame Start)
// @symbolic 700 the event
// @bound 3.16 state, one occupied port, no frame yet, one Frame Pre event
// @assume the port's column set is a typed stack object
// @stub alloc::fmt::format = returns an empty String
// @stub std::hash::RandomState::new = fixed keys
// @cbmc --max-field-sensitivity-array-size 512
#[kani::proof]
#[kani::unwind(8)]
#[kani::stub(alloc::fmt::format, format_stub)]
#[kani::stub(std::hash::RandomState::new, random_state_stub)]
fn c06_nopanic_pre_no_frame() {
	port_event(0x37, false, false, 1, false);
	kani::cover!(true, "reached");
}

// @verif property=C04,C01:thorough tier=quick mem=16 timeout=3000
// @encodes peppi::io::slippi::de::parse_event + ParseState::frame_close on an Ice Climbers port: null padding of leader AND follower when both are absent from a frame
// @symbolic 2800 all payload bytes of 10 events (frame ids concrete, see c04_port_r3_present_then_absent)
// @bound version 3.16.0, one port holding Ice Climbers, two frame occurrences (ids -123, -122): both climbers present in the first, both absent from the second
// @assume state built by ParseState::verif_from_parts; the port's column set is a typed stack object
// @stub alloc::fmt::format = returns an empty String
// @stub std::hash::RandomState::new = fixed keys
// @cbmc --max-field-sensitivity-array-size 512
#[kani::proof]
#[kani::unwind(8)]
#[kani::stub(alloc::fmt::format, format_stub)]
#[kani::stub(std::hash::RandomState::new, random_state_stub)]
fn c04_port_r3_ics_both_absent() {
	c04_port_r3_ics_both_absent_case(-123, -122);
	kani::cover!(true, "reached");
}

fn c04_port_r3_ics_both_absent_case(a: i32, b: i32) {
	let v = Version(3, 16, 0);
	let mut store = new_port(v, Port::P1, true);
	let mut state = one_port_state(v, &mut store, Port::P1);
	const PRE: usize = 1 + 6 + 58;
	const POST: usize = 1 + 6 + 78;
	let mut s_a: [u8; 13] = kani::any();
	s_a[0] = 0x3A;
	put_id(&mut s_a, a);
	step(&mut state, &s_a, 0x3A);
	let mut pre_l: [u8; PRE] = kani::any();
	put_port_header(&mut pre_l, 0x37, a, 0, false);
	step(&mut state, &pre_l, 0x37);
	let mut pre_f: [u8; PRE] = kani::any();
	put_port_header(&mut pre_f, 0x37, a, 0, true);
	step(&mut state, &pre_f, 0x37);
	let mut post_l: [u8; POST] = kani::any();
	put_port_header(&mut post_l, 0x38, a, 0, false);
	step(&mut state, &post_l, 0x38);
	let mut post_f: [u8; POST] = kani::any();
	put_port_header(&mut post_f, 0x38, a, 0, true);
	step(&mut state, &post_f, 0x38);
	let mut e_a: [u8; 9] = kani::any();
	e_a[0] = 0x3C;
	put_id(&mut e_a, a);
	step(&mut state, &e_a, 0x3C);
	// second occurrence: neither climber has events
	let mut s_b: [u8; 13] = kani::any();
	s_b[0] = 0x3A;
	put_id(&mut s_b, b);
	step(&mut state, &s_b, 0x3A);
	let mut e_b: [u8; 9] = kani::any();
	e_b[0] = 0x3C;
	put_id(&mut e_b, b);
	step(&mut state, &e_b, 0x3C);

	let f = state.frames();
	assert!(f.id.len() == 2);
	let p = &f.ports[0];
	assert!(p.leader.pre.len() == 2 && p.leader.post.len() == 2);
	assert!(bit(&p.leader.validity, 0, 2) && !bit(&p.leader.validity, 1, 2));
	match p.follower.as_ref() {
		Some(fo) => {
			// the follower's columns have one entry per frame row as well
			assert!(fo.pre.len() == 2 && fo.post.len() == 2);
			assert!(bit(&fo.validity, 0, 2) && !bit(&fo.validity, 1, 2));
			assert!(fo.pre.random_seed.values()[0] == u32::from_be_bytes([pre_f[7], pre_f[8], pre_f[9], pre_f[10]]));
			assert!(fo.post.character.values()[0] == post_f[7]);
		}
		None => assert!(false),
	}
	assert!(p.leader.pre.random_seed.values()[0] == u32::from_be_bytes([pre_l[7], pre_l[8], pre_l[9], pre_l[10]]));
}

// @verif property=C04,C01 tier=thorough mem=16 timeout=5400
// @encodes peppi::io::slippi::de::parse_event (Frame Start / Frame End arms) + ParseState::frame_close on an Ice Climbers port that has no character events at all: null padding of leader AND follower, one entry per frame row
// @symbolic 230 payload bytes of 4 events (frame ids concrete)
// @bound version 3.16.0, one port holding Ice Climbers, two frame occurrences (consecutive ids -123, -122; the rollback variant is a separate harness), neither climber has events in either
// @assume state built by ParseState::verif_from_parts; the port's column set is a typed stack object
// @stub alloc::fmt::format = returns an empty String
// @stub std::hash::RandomState::new = fixed keys
// @cbmc --max-field-sensitivity-array-size 512
#[kani::proof]
#[kani::unwind(8)]
#[kani::stub(alloc::fmt::format, format_stub)]
#[kani::stub(std::hash::RandomState::new, random_state_stub)]
fn c04_port_ics_never_present() {
	c04_port_ics_never_present_case(-123, -122);
	kani::cover!(true, "reached");
}

fn c04_port_ics_never_present_case(a: i32, b: i32) {
	let v = Version(3, 16, 0);
	let mut store = new_port(v, Port::P1, true);
	let mut state = one_port_state(v, &mut store, Port::P1);
	let mut s_a: [u8; 13] = kani::any();
	s_a[0] = 0x3A;
	put_id(&mut s_a, a);
	step(&mut state, &s_a, 0x3A);
	let mut e_a: [u8; 9] = kani::any();
	e_a[0] = 0x3C;
	put_id(&mut e_a, a);
	step(&mut state, &e_a, 0x3C);
	{
		// after the first frame is closed every column already has its row
		let f = state.frames();
		let p = &f.ports[0];
		assert!(f.id.len() == 1);
		assert!(p.leader.pre.len() == 1 && p.leader.post.len() == 1);
		assert!(!bit(&p.leader.validity, 0, 1));
		match p.follower.as_ref() {
			Some(fo) => {
				assert!(fo.pre.len() == 1 && fo.post.len() == 1);
				assert!(!bit(&fo.validity, 0, 1));
			}
			None => assert!(false),
		}
	}
	let mut s_b: [u8; 13] = kani::any();
	s_b[0] = 0x3A;
	put_id(&mut s_b, b);
	step(&mut state, &s_b, 0x3A);
	let mut e_b: [u8; 9] = kani::any();
	e_b[0] = 0x3C;
	put_id(&mut e_b, b);
	step(&mut state, &e_b, 0x3C);

	let f = state.frames();
	assert!(f.id.len() == 2 && f.id.values()[0] == a && f.id.values()[1] == b);
	let p = &f.ports[0];
	assert!(p.leader.pre.len() == 2 && p.leader.post.len() == 2);
	assert!(!bit(&p.leader.validity, 0, 2) && !bit(&p.leader.validity, 1, 2));
	match p.follower.as_ref() {
		Some(fo) => {
			assert!(fo.pre.len() == 2 && fo.post.len() == 2);
			assert!(!bit(&fo.validity, 0, 2) && !bit(&fo.validity, 1, 2));
		}
		None => assert!(false),
	}
}

// @verif property=C04 tier=quick mem=16 timeout=3000
// @encodes peppi::io::slippi::de::parse_event (Frame Start / Frame End arms) + ParseState::frame_close at version 3.0.0: after the Frame End of a frame in which the port's character had no events, every column of that character has its (null) row - nothing has to follow the Frame End
// @symbolic 100 payload bytes of the two events
// @bound version 3.0.0 (Frame Start/End framing, fewest columns), one port (not Ice Climbers), ONE frame (id -123) without character events; two occurrences: c04_port_absent_in_last_frame_v3_0 (thorough)
// @assume state built by ParseState::verif_from_parts; the port's column set is a typed stack object
// @stub alloc::fmt::format = returns an empty String
// @stub std::hash::RandomState::new = fixed keys
// @cbmc --max-field-sensitivity-array-size 512
#[kani::proof]
#[kani::unwind(8)]
#[kani::stub(alloc::fmt::format, format_stub)]
#[kani::stub(std::hash::RandomState::new, random_state_stub)]
fn c04_port_absent_single_frame_v3_0() {
	let v = Version(3, 0, 0);
	let mut store = new_port(v, Port::P3, false);
	let mut state = one_port_state(v, &mut store, Port::P3);
	let a = -123i32;
	let mut s_a: [u8; 9] = kani::any();
	s_a[0] = 0x3A;
	put_id(&mut s_a, a);
	step(&mut state, &s_a, 0x3A);
	let mut e_a: [u8; 5] = kani::any();
	e_a[0] = 0x3C;
	put_id(&mut e_a, a);
	step(&mut state, &e_a, 0x3C);
	let f = state.frames();
	let p = &f.ports[0];
	assert!(f.id.len() == 1 && f.id.values()[0] == a);
	assert!(p.leader.pre.len() == 1 && p.leader.post.len() == 1);
	assert!(!bit(&p.leader.validity, 0, 1));
	match (f.start.as_ref(), f.end.as_ref()) {
		(Some(s), Some(e)) => assert!(s.len() == 1 && e.len() == 1),
		_ => assert!(false),
	}
	kani::cover!(true, "reached");
}

// @verif property=C04,C12 tier=thorough mem=16 timeout=5400
// @encodes peppi::io::slippi::de::parse_event (Frame Start / Frame End arms) + ParseState::frame_close at version 3.0.0: a character without events in the LAST frame of the stream has its null row as soon as that frame's Frame End has been parsed
// @symbolic 130 payload bytes of 4 events (frame ids concrete)
// @bound version 3.0.0 (Frame Start/End framing, fewest columns), one port (not Ice Climbers), two frame occurrences without character events; the state is inspected after each Frame End, nothing follows the last one
// @assume state built by ParseState::verif_from_parts; the port's column set is a typed stack object
// @stub alloc::fmt::format = returns an empty String
// @stub std::hash::RandomState::new = fixed keys
// @cbmc --max-field-sensitivity-array-size 512
#[kani::proof]
#[kani::unwind(8)]
#[kani::stub(alloc::fmt::format, format_stub)]
#[kani::stub(std::hash::RandomState::new, random_state_stub)]
fn c04_port_absent_in_last_frame_v3_0() {
	c04_port_absent_in_last_frame_v3_0_case(-123, -122);
	kani::cover!(true, "reached");
}

fn c04_port_absent_in_last_frame_v3_0_case(a: i32, b: i32) {
	let v = Version(3, 0, 0);
	let mut store = new_port(v, Port::P3, false);
	let mut state = one_port_state(v, &mut store, Port::P3);
	let mut s_a: [u8; 9] = kani::any();
	s_a[0] = 0x3A;
	put_id(&mut s_a, a);
	step(&mut state, &s_a, 0x3A);
	let mut e_a: [u8; 5] = kani::any();
	e_a[0] = 0x3C;
	put_id(&mut e_a, a);
	step(&mut state, &e_a, 0x3C);
	{
		let f = state.frames();
		let p = &f.ports[0];
		assert!(f.id.len() == 1);
		assert!(p.leader.pre.len() == 1 && p.leader.post.len() == 1);
		assert!(!bit(&p.leader.validity, 0, 1));
	}
	let mut s_b: [u8; 9] = kani::any();
	s_b[0] = 0x3A;
	put_id(&mut s_b, b);
	step(&mut state, &s_b, 0x3A);
	let mut e_b: [u8; 5] = kani::any();
	e_b[0] = 0x3C;
	put_id(&mut e_b, b);
	step(&mut state, &e_b, 0x3C);
	let f = state.frames();
	assert!(f.id.len() == 2 && f.id.values()[0] == a && f.id.values()[1] == b);
	let p = &f.ports[0];
	assert!(p.follower.is_none());
	assert!(p.leader.pre.len() == 2 && p.leader.post.len() == 2);
	assert!(!bit(&p.leader.validity, 0, 2) && !bit(&p.leader.validity, 1, 2));
	match (f.start.as_ref(), f.end.as_ref()) {
		(Some(s), Some(e)) => assert!(s.len() == 2 && e.len() == 2),
		_ => assert!(false),
	}
}

// @verif property=C04,C01 tier=thorough mem=16 timeout=5400
// @encodes peppi::io::slippi::de::parse_event (Frame Pre / Frame Post, old framing) + ParseState::frame_close with two occupied ports, one of them an Ice Climbers port neither of whose climbers has any event: null padding of leader AND follower
// @symbolic 670 Pre/Post payload bytes of 2 events
// @bound version 0.1.0 (fewest columns), ports P1 (Ice Climbers, never present) and P2 (present), one frame
// @assume state built by ParseState::verif_from_parts; column sets are a typed stack array; the final frame_close() of read() is called through a hook
// @stub alloc::fmt::format = returns an empty String
// @stub std::hash::RandomState::new = fixed keys
// @cbmc --max-field-sensitivity-array-size 512
#[kani::proof]
#[kani::unwind(8)]
#[kani::stub(alloc::fmt::format, format_stub)]
#[kani::stub(std::hash::RandomState::new, random_state_stub)]
fn c04_two_ports_ics_both_absent_v0_1() {
	let v = Version(0, 1, 0);
	let mut store = core::mem::ManuallyDrop::new([
		core::mem::ManuallyDrop::into_inner(new_port(v, Port::P1, true)),
		core::mem::ManuallyDrop::into_inner(new_port(v, Port::P2, false)),
	]);
	let mut state = two_port_state(v, &mut store, [Port::P1, Port::P2]);
	const PRE: usize = 1 + 6 + 52;
	const POST: usize = 1 + 6 + 27;
	let a = -123i32;
	let mut pre_a2: [u8; PRE] = kani::any();
	put_port_header(&mut pre_a2, 0x37, a, 1, false);
	step(&mut state, &pre_a2, 0x37);
	let mut post_a2: [u8; POST] = kani::any();
	put_port_header(&mut post_a2, 0x38, a, 1, false);
	step(&mut state, &post_a2, 0x38);
	state.verif_frame_close();

	let f = state.frames();
	assert!(f.id.len() == 1);
	let p1 = &f.ports[0];
	let p2 = &f.ports[1];
	assert!(p2.leader.pre.len() == 1 && p2.leader.post.len() == 1);
	assert!(bit(&p2.leader.validity, 0, 1));
	assert!(p2.leader.pre.random_seed.values()[0] == u32::from_be_bytes([pre_a2[7], pre_a2[8], pre_a2[9], pre_a2[10]]));
	assert!(p2.leader.post.character.values()[0] == post_a2[7]);
	// the Ice Climbers port: one (null) row in every column of both climbers
	assert!(p1.leader.pre.len() == 1 && p1.leader.post.len() == 1);
	assert!(!bit(&p1.leader.validity, 0, 1));
	match p1.follower.as_ref() {
		Some(fo) => {
			assert!(fo.pre.len() == 1 && fo.post.len() == 1);
			assert!(!bit(&fo.validity, 0, 1));
		}
		None => assert!(false),
	}
	kani::cover!(true, "reached");
}

// @verif property=C04 tier=thorough mem=24 timeout=5400
// @encodes peppi::io::slippi::de::parse_event with two occupied ports: each character's events land in its own port's columns, whatever the event order
// @symbolic 2470 payloads of 4 character events and of Frame Start / Frame End (frame id concrete, §8.1)
// @bound version 3.16.0, ports P2 and P4 occupied (slots 0 and 1), one frame, pre events in reverse port order
// @assume state built by ParseState::verif_from_parts; column sets are a typed stack array
// @stub alloc::fmt::format = returns an empty String
// @stub std::hash::RandomState::new = fixed keys
// @cbmc --max-field-sensitivity-array-size 512
#[kani::proof]
#[kani::unwind(8)]
#[kani::stub(alloc::fmt::format, format_stub)]
#[kani::stub(std::hash::RandomState::new, random_state_stub)]
fn c04_two_ports_slot_mapping() {
	let v = Version(3, 16, 0);
	let mut store = core::mem::ManuallyDrop::new([
		core::mem::ManuallyDrop::into_inner(new_port(v, Port::P2, false)),
		core::mem::ManuallyDrop::into_inner(new_port(v, Port::P4, false)),
	]);
	let mut state = two_port_state(v, &mut store, [Port::P2, Port::P4]);
	const PRE: usize = 1 + 6 + 58;
	const POST: usize = 1 + 6 + 78;
	let a = -123i32;
	let mut s_a: [u8; 13] = kani::any();
	s_a[0] = 0x3A;
	put_id(&mut s_a, a);
	step(&mut state, &s_a, 0x3A);
	// P4 first, then P2
	let mut pre4: [u8; PRE] = kani::any();
	put_port_header(&mut pre4, 0x37, a, 3, false);
	step(&mut state, &pre4, 0x37);
	let mut pre2: [u8; PRE] = kani::any();
	put_port_header(&mut pre2, 0x37, a, 1, false);
	step(&mut state, &pre2, 0x37);
	let mut post2: [u8; POST] = kani::any();
	put_port_header(&mut post2, 0x38, a, 1, false);
	step(&mut state, &post2, 0x38);
	let mut post4: [u8; POST] = kani::any();
	put_port_header(&mut post4, 0x38, a, 3, false);
	step(&mut state, &post4, 0x38);
	let mut e_a: [u8; 9] = kani::any();
	e_a[0] = 0x3C;
	put_id(&mut e_a, a);
	step(&mut state, &e_a, 0x3C);
	let f = state.frames();
	assert!(f.ports.len() == 2);
	assert!(f.ports[0].port == Port::P2 && f.ports[1].port == Port::P4);
	assert!(f.ports[0].leader.pre.len() == 1 && f.ports[1].leader.pre.len() == 1);
	assert!(f.ports[0].leader.post.len() == 1 && f.ports[1].leader.post.len() == 1);
	assert!(f.ports[0].leader.pre.random_seed.values()[0] == u32::from_be_bytes([pre2[7], pre2[8], pre2[9], pre2[10]]));
	assert!(f.ports[1].leader.pre.random_seed.values()[0] == u32::from_be_bytes([pre4[7], pre4[8], pre4[9], pre4[10]]));
	assert!(f.ports[0].leader.post.character.values()[0] == post2[7]);
	assert!(f.ports[1].leader.post.character.values()[0] == post4[7]);
	kani::cover!(true, "reached");
}

// @verif property=C04,C01:thorough tier=quick mem=16 timeout=3000
// @encodes peppi::io::slippi::de::parse_event (old framing: a frame is opened by the first Frame Pre event carrying the next id) with two occupied ports, where the port that reports first was absent from the previous frame
// @symbolic 1900 all Pre/Post payload bytes of 6 events
// @bound version 0.1.0, ports P1 and P2 occupied, two consecutive frames: P1 absent from the first, both present in the second (P1's Frame Pre comes first)
// @assume state built by ParseState::verif_from_parts; column sets are a typed stack array; the final frame_close() of read() is called through a hook
// @stub alloc::fmt::format = returns an empty String
// @stub std::hash::RandomState::new = fixed keys
// @cbmc --max-field-sensitivity-array-size 512
#[kani::proof]
#[kani::unwind(8)]
#[kani::stub(alloc::fmt::format, format_stub)]
#[kani::stub(std::hash::RandomState::new, random_state_stub)]
fn c04_two_ports_r1_first_reporter_returns() {
	let v = Version(0, 1, 0);
	let mut store = core::mem::ManuallyDrop::new([
		core::mem::ManuallyDrop::into_inner(new_port(v, Port::P1, false)),
		core::mem::ManuallyDrop::into_inner(new_port(v, Port::P2, false)),
	]);
	let mut state = two_port_state(v, &mut store, [Port::P1, Port::P2]);
	const PRE: usize = 1 + 6 + 52;
	const POST: usize = 1 + 6 + 27;
	let a = -123i32;
	let b = -122i32;
	// frame a: P2 only
	let mut pre_a2: [u8; PRE] = kani::any();
	put_port_header(&mut pre_a2, 0x37, a, 1, false);
	step(&mut state, &pre_a2, 0x37);
	let mut post_a2: [u8; POST] = kani::any();
	put_port_header(&mut post_a2, 0x38, a, 1, false);
	step(&mut state, &post_a2, 0x38);
	// frame b: P1 (returning) reports first, then P2
	let mut pre_b1: [u8; PRE] = kani::any();
	put_port_header(&mut pre_b1, 0x37, b, 0, false);
	step(&mut state, &pre_b1, 0x37);
	let mut pre_b2: [u8; PRE] = kani::any();
	put_port_header(&mut pre_b2, 0x37, b, 1, false);
	step(&mut state, &pre_b2, 0x37);
	let mut post_b1: [u8; POST] = kani::any();
	put_port_header(&mut post_b1, 0x38, b, 0, false);
	step(&mut state, &post_b1, 0x38);
	let mut post_b2: [u8; POST] = kani::any();
	put_port_header(&mut post_b2, 0x38, b, 1, false);
	step(&mut state, &post_b2, 0x38);
	state.verif_frame_close();

	let f = state.frames();
	assert!(f.id.len() == 2);
	let p1 = &f.ports[0];
	let p2 = &f.ports[1];
	assert!(p1.leader.pre.len() == 2 && p1.leader.post.len() == 2);
	assert!(p2.leader.pre.len() == 2 && p2.leader.post.len() == 2);
	// presence bits: one per row, P1 absent in row 0 and present in row 1, P2 always present
	assert!(!bit(&p1.leader.validity, 0, 2));
	assert!(bit(&p1.leader.validity, 1, 2));
	assert!(bit(&p2.leader.validity, 0, 2) && bit(&p2.leader.validity, 1, 2));
	assert!(p1.leader.pre.random_seed.values()[1] == u32::from_be_bytes([pre_b1[7], pre_b1[8], pre_b1[9], pre_b1[10]]));
	assert!(p2.leader.pre.random_seed.values()[0] == u32::from_be_bytes([pre_a2[7], pre_a2[8], pre_a2[9], pre_a2[10]]));
	assert!(p2.leader.pre.random_seed.values()[1] == u32::from_be_bytes([pre_b2[7], pre_b2[8], pre_b2[9], pre_b2[10]]));
	assert!(p1.leader.post.character.values()[1] == post_b1[7]);
	assert!(p2.leader.post.character.values()[0] == post_a2[7]);
	kani::cover!(true, "reached");
}

// @verif property=C06,C04 tier=quick mem=12 timeout=1800
// @encodes peppi::io::slippi::de::ParseState::character_mut (which column set a Frame Pre / Frame Post event is routed to) and expect_frame_id
// @symbolic 73 port byte (all 256 values), follower flag, frame id of the event and of the open frame
// @bound one-port state (P2, not Ice Climbers), one open frame
// @assume unit level: on the unrepaired tree port bytes 4 and 255 were driven through parse_event (replays/C06/c06_nopanic_{pre,post}_port{4,255}.rs: index out of bounds); on the repaired tree those harnesses do not finish (40 min), so the routing check is exercised directly for every port byte
// @stub alloc::fmt::format = returns an empty String
// @stub std::hash::RandomState::new = fixed keys
// @cbmc --max-field-sensitivity-array-size 512
#[kani::proof]
#[kani::unwind(8)]
#[kani::stub(alloc::fmt::format, format_stub)]
#[kani::stub(std::hash::RandomState::new, random_state_stub)]
fn c06_event_routing_total() {
	let v = Version(3, 16, 0);
	let mut store = new_port(v, Port::P2, false);
	let mut state = one_port_state(v, &mut store, Port::P2);
	let a: i32 = kani::any();
	let mut s_a: [u8; 13] = kani::any();
	s_a[0] = 0x3A;
	put_id(&mut s_a, a);
	step(&mut state, &s_a, 0x3A);
	let port: u8 = kani::any();
	let follower: bool = kani::any();
	let r = state.verif_character_mut(port, follower);
	// routed iff the event names the occupied port and, for a follower, the port holds Ice Climbers
	assert!(r.is_ok() == (port == 1 && !follower));
	let id: i32 = kani::any();
	let r2 = state.verif_expect_frame_id(id);
	assert!(r2.is_ok() == (id == a));
	kani::cover!(port >= 4, "port number out of range");
	kani::cover!(port == 0, "unoccupied port");
	kani::cover!(port == 1 && follower, "follower flag on a non-ICs port");
	kani::cover!(r.is_ok() && r2.is_ok(), "well addressed");
	forget(r);
	forget(r2);
}

// @verif property=C04,C12 tier=thorough mem=24 timeout=5400
// @encodes peppi::io::slippi::de::parse_event (Frame Start, Frame Pre, Frame Post, Frame End arms), ParseState::frame_close null padding, mutable::Data::push_null
// @symbolic 2600 all payload bytes of 7 events (frame ids concrete: symbolic ids make every column length symbolic and the null-padding loops do not finish, > 45 min; arbitrary ids incl. rollbacks are decided on the port-free skeleton, gen_c04)
// @bound rollback variant (both occurrences carry frame id -100); version 3.16.0, one port (not Ice Climbers), two frame occurrences: the character is present in the first and absent from the second
// @assume state built by ParseState::verif_from_parts; the port's column set is a typed stack object
// @stub alloc::fmt::format = returns an empty String
// @stub std::hash::RandomState::new = fixed keys
// @cbmc --max-field-sensitivity-array-size 512
#[kani::proof]
#[kani::unwind(8)]
#[kani::stub(alloc::fmt::format, format_stub)]
#[kani::stub(std::hash::RandomState::new, random_state_stub)]
fn c04_port_r3_present_then_absent_rollback() {
	c04_port_r3_present_then_absent_case(-100, -100);
	kani::cover!(true, "reached");
}

// @verif property=C04,C01 tier=thorough mem=24 timeout=5400
// @encodes peppi::io::slippi::de::parse_event + ParseState::frame_close on an Ice Climbers port: null padding of leader AND follower when both are absent from a frame
// @symbolic 2800 all payload bytes of 10 events (frame ids concrete, see c04_port_r3_present_then_absent)
// @bound rollback variant (both occurrences carry frame id -100); version 3.16.0, one port holding Ice Climbers, two frame occurrences: both climbers present in the first, both absent from the second
// @assume state built by ParseState::verif_from_parts; the port's column set is a typed stack object
// @stub alloc::fmt::format = returns an empty String
// @stub std::hash::RandomState::new = fixed keys
// @cbmc --max-field-sensitivity-array-size 512
#[kani::proof]
#[kani::unwind(8)]
#[kani::stub(alloc::fmt::format, format_stub)]
#[kani::stub(std::hash::RandomState::new, random_state_stub)]
fn c04_port_r3_ics_both_absent_rollback() {
	c04_port_r3_ics_both_absent_case(-100, -100);
	kani::cover!(true, "reached");
}

// @verif property=C04,C01 tier=thorough mem=16 timeout=5400
// @encodes peppi::io::slippi::de::parse_event (Frame Start / Frame End arms) + ParseState::frame_close on an Ice Climbers port that has no character events at all: null padding of leader AND follower, one entry per frame row
// @symbolic 230 payload bytes of 4 events (frame ids concrete)
// @bound rollback variant (both occurrences carry frame id -100); version 3.16.0, one port holding Ice Climbers, two frame occurrences, neither climber has events in either
// @assume state built by ParseState::verif_from_parts; the port's column set is a typed stack object
// @stub alloc::fmt::format = returns an empty String
// @stub std::hash::RandomState::new = fixed keys
// @cbmc --max-field-sensitivity-array-size 512
#[kani::proof]
#[kani::unwind(8)]
#[kani::stub(alloc::fmt::format, format_stub)]
#[kani::stub(std::hash::RandomState::new, random_state_stub)]
fn c04_port_ics_never_present_rollback() {
	c04_port_ics_never_present_case(-100, -100);
	kani::cover!(true, "reached");
}

// @verif property=C04,C12 tier=thorough mem=16 timeout=5400
// @encodes peppi::io::slippi::de::parse_event (Frame Start / Frame End arms) + ParseState::frame_close at version 3.0.0: a character without events in the LAST frame of the stream has its null row as soon as that frame's Frame End has been parsed
// @symbolic 130 payload bytes of 4 events (frame ids concrete)
// @bound rollback variant (both occurrences carry frame id -100); version 3.0.0 (Frame Start/End framing, fewest columns), one port (not Ice Climbers), two frame occurrences without character events; the state is inspected after each Frame End, nothing follows the last one
// @assume state built by ParseState::verif_from_parts; the port's column set is a typed stack object
// @stub alloc::fmt::format = returns an empty String
// @stub std::hash::RandomState::new = fixed keys
// @cbmc --max-field-sensitivity-array-size 512
#[kani::proof]
#[kani::unwind(8)]
#[kani::stub(alloc::fmt::format, format_stub)]
#[kani::stub(std::hash::RandomState::new, random_state_stub)]
fn c04_port_absent_in_last_frame_v3_0_rollback() {
	c04_port_absent_in_last_frame_v3_0_case(-100, -100);
	kani::cover!(true, "reached");
}
