//! C15 – rollback de-duplication mask.
use core::mem::forget;
use peppi::frame::immutable::Frame;
use peppi::frame::Rollbacks;

fn frame_with_ids(ids: &[i32]) -> Frame {
	Frame {
		id: arrow2::array::PrimitiveArray::from_vec(ids.to_vec()),
		ports: Vec::new(),
		start: None,
		end: None,
		item_offset: None,
		item: None,
	}
}

fn check<const N: usize>() -> (bool, bool, bool) {
	let ids: [i32; N] = kani::any();
	let mut i = 0;
	while i < N {
		kani::assume(ids[i] >= -123 && ids[i] <= -118);
		i += 1;
	}
	let frame = frame_with_ids(&ids);
	let first = frame.rollbacks(Rollbacks::ExceptFirst);
	let last = frame.rollbacks(Rollbacks::ExceptLast);
	assert!(first.len() == N);
	assert!(last.len() == N);
	let mut i = 0;
	while i < N {
		// definition: marked in keep-first mode iff an earlier row has the same id,
		// in keep-last mode iff a later row has the same id
		let mut earlier = false;
		let mut later = false;
		let mut unmarked_first = 0;
		let mut unmarked_last = 0;
		let mut j = 0;
		while j < N {
			if ids[j] == ids[i] {
				if j < i {
					earlier = true;
				}
				if j > i {
					later = true;
				}
				if !first[j] {
					unmarked_first += 1;
				}
				if !last[j] {
					unmarked_last += 1;
				}
			}
			j += 1;
		}
		assert!(first[i] == earlier);
		assert!(last[i] == later);
		// exactly one unmarked row per distinct id
		assert!(unmarked_first == 1);
		assert!(unmarked_last == 1);
		i += 1;
	}
	// witnesses (meaningful for N >= 3 only; evaluated by the callers)
	let w = if N >= 3 {
		(
			ids[0] == ids[N - 1] && ids[0] != ids[1],
			ids[0] == ids[1] && ids[1] == ids[2],
			!first[N - 1] && !last[0] && ids[0] != ids[1],
		)
	} else {
		(ids[0] == ids[N - 1], ids[0] != ids[N - 1], true)
	};
	forget(frame);
	forget(first);
	forget(last);
	w
}

// @verif property=C15 tier=quick mem=12 timeout=1200
// @encodes peppi::frame::immutable::Frame::rollbacks, Frame::rollbacks_ (both modes)
// @symbolic 128 four frame ids
// @bound 4 rows, ids in -123..=-118 (6 distinct ids): every repetition pattern incl. non-adjacent and triple repeats; longer sequences / larger ids outside
// @assume ids >= -123 (the property's precondition) and <= -118 (bound on the seen-vector size)
#[kani::proof]
#[kani::unwind(8)]
fn c15_rollbacks_n4() {
	let w = check::<4>();
	kani::cover!(w.0, "non-adjacent repeat, first and last row");
	kani::cover!(w.1, "id repeated more than twice");
	kani::cover!(w.2, "no repeats");
}

// @verif property=C15 tier=quick mem=8 timeout=600
// @encodes peppi::frame::immutable::Frame::rollbacks on a game without frames
// @symbolic 1 mode
// @bound 0 rows
#[kani::proof]
#[kani::unwind(4)]
fn c15_rollbacks_n0() {
	let frame = frame_with_ids(&[]);
	let keep = if kani::any() { Rollbacks::ExceptFirst } else { Rollbacks::ExceptLast };
	let m = frame.rollbacks(keep);
	assert!(m.len() == 0);
	kani::cover!(true, "reached");
	forget(frame);
	forget(m);
}

// @verif property=C15 tier=quick mem=8 timeout=900
// @encodes peppi::frame::immutable::Frame::rollbacks
// @symbolic 64 two frame ids
// @bound 2 rows, ids in -123..=-118
// @assume ids >= -123 and <= -118
#[kani::proof]
#[kani::unwind(8)]
fn c15_rollbacks_n2() {
	let w = check::<2>();
	kani::cover!(w.0, "same id twice");
	kani::cover!(w.1, "two different ids");
}

// @verif property=C15 tier=thorough mem=16 timeout=3000
// @encodes peppi::frame::immutable::Frame::rollbacks
// @symbolic 160 five frame ids
// @bound 5 rows, ids in -123..=-118
// @assume ids >= -123 and <= -118
#[kani::proof]
#[kani::unwind(8)]
fn c15_rollbacks_n5() {
	let w = check::<5>();
	kani::cover!(w.0, "non-adjacent repeat, first and last row");
	kani::cover!(w.1, "id repeated more than twice");
	kani::cover!(w.2, "no repeats");
}
