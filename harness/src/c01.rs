//! C01 / C17 – writer side on a port-free one-row game: event sequencing of `Frame::write`
//! and agreement of the declared raw length with the bytes actually emitted by `slippi::write`.
use crate::gen_c03::*;
use crate::steps::*;
use crate::util::*;
use arrow2::array::MutableArray;
use core::mem::forget;
use peppi::frame::immutable::Frame as IFrame;
use peppi::frame::mutable::Frame as MFrame;
use peppi::game::immutable::Game;
use peppi::game::{self, Quirks};
use peppi::io::slippi::Version;
use std::io::Write;

/// One frame row with `K` items, built through the real readers from symbolic payloads.
/// Returns the frame and the expected canonical event bytes.
fn one_row_v3_16<const K: usize>(id: i32, sp: &[u8; 8], ip: &[[u8; 40]; K], ep: &[u8; 4]) -> IFrame {
	let v = Version(3, 16, 0);
	let mut f = MFrame::with_capacity(0, v, &[]);
	f.id.push(Some(id));
	let ok = match (f.start.as_mut(), f.item.as_mut(), f.end.as_mut(), f.item_offset.as_mut()) {
		(Some(s), Some(it), Some(e), Some(off)) => {
			let mut ok = s.read_push(&mut &sp[..], v).is_ok();
			let mut k = 0;
			while k < K {
				ok = ok && it.read_push(&mut &ip[k][..], v).is_ok();
				k += 1;
			}
			ok = ok && off.try_push(K as i32).is_ok();
			ok && e.read_push(&mut &ep[..], v).is_ok()
		}
		_ => false,
	};
	assert!(ok);
	f.into()
}

fn put(out: &mut [u8], pos: &mut usize, bytes: &[u8]) {
	let mut i = 0;
	while i < bytes.len() {
		out[*pos + i] = bytes[i];
		i += 1;
	}
	*pos += bytes.len();
}

// @verif property=C01,C17 tier=quick mem=16 timeout=2400
// @encodes peppi::frame::immutable::Frame::write (event order and framing), {Start, Item, End}::write, From<mutable::Frame> for immutable::Frame
// @symbolic 416 frame id, start/item/end payloads
// @bound one frame row, one item, no occupied ports, version 3.16.0
// @assume oracle: canonical order start, item*, end; each event = code, big-endian frame id, payload (Slippi spec)
// @stub alloc::fmt::format = returns an empty String
#[kani::proof]
#[kani::unwind(60)]
#[kani::stub(alloc::fmt::format, format_stub)]
fn c01_frame_write_free_k1() {
	let id: i32 = kani::any();
	let sp: [u8; 8] = kani::any();
	let ip: [[u8; 40]; 1] = kani::any();
	let ep: [u8; 4] = kani::any();
	let frame = one_row_v3_16::<1>(id, &sp, &ip, &ep);
	const N: usize = 13 + 45 + 9;
	let mut out = [0u8; N];
	let mut w: &mut [u8] = &mut out[..];
	let r = frame.write(&mut w, Version(3, 16, 0));
	assert!(r.is_ok());
	assert!(w.len() == 0);
	let mut exp = [0u8; N];
	let mut pos = 0;
	let idb = id.to_be_bytes();
	put(&mut exp, &mut pos, &[0x3A]);
	put(&mut exp, &mut pos, &idb);
	put(&mut exp, &mut pos, &sp);
	put(&mut exp, &mut pos, &[0x3B]);
	put(&mut exp, &mut pos, &idb);
	put(&mut exp, &mut pos, &ip[0]);
	put(&mut exp, &mut pos, &[0x3C]);
	put(&mut exp, &mut pos, &idb);
	put(&mut exp, &mut pos, &ep);
	let i: usize = kani::any();
	kani::assume(i < N);
	assert!(out[i] == exp[i]);
	kani::cover!(true, "reached");
	forget(r);
	forget(frame);
}

struct Sink<const N: usize> {
	buf: [u8; N],
	len: usize,
	overflow: bool,
}

impl<const N: usize> Write for Sink<N> {
	fn write(&mut self, b: &[u8]) -> std::io::Result<usize> {
		let room = N - self.len;
		let n = if b.len() < room { b.len() } else { room };
		self.buf[self.len..self.len + n].copy_from_slice(&b[..n]);
		self.len += n;
		if n < b.len() {
			self.overflow = true;
		}
		Ok(b.len())
	}
	fn flush(&mut self) -> std::io::Result<()> {
		Ok(())
	}
}

#[derive(Clone, Copy, PartialEq)]
enum EndKind {
	None,
	One,
	Doubled,
}

/// size declared for `code` in a seven-entry payload table emitted at out[15..38]
fn table_entry(out: &[u8; 200], code: u8) -> Option<u16> {
	let mut k = 0;
	let mut found = None;
	while k < 7 {
		if out[17 + 3 * k] == code {
			found = Some(u16::from_be_bytes([out[18 + 3 * k], out[19 + 3 * k]]));
		}
		k += 1;
	}
	found
}

fn raw_len_case(end: EndKind, nitems_two: bool) {
	let v = Version(3, 16, 0);
	let id: i32 = kani::any();
	let sp: [u8; 8] = kani::any();
	let ep: [u8; 4] = kani::any();
	let frames = if nitems_two {
		let ip: [[u8; 40]; 2] = kani::any();
		one_row_v3_16::<2>(id, &sp, &ip, &ep)
	} else {
		let ip: [[u8; 40]; 0] = [];
		one_row_v3_16::<0>(id, &sp, &ip, &ep)
	};
	let mut start = mk_start(v);
	// the writer only copies the raw start block; a short stand-in keeps the sink small
	let sb: [u8; 4] = kani::any();
	start.bytes = game::Bytes(sb.to_vec());
	let eb: [u8; 6] = kani::any();
	let game = Game {
		start,
		end: if end == EndKind::None {
			None
		} else {
			Some(game::End { method: game::EndMethod::Game, bytes: game::Bytes(eb.to_vec()), lras_initiator: None, players: None })
		},
		frames,
		metadata: None,
		gecko_codes: None,
		hash: None,
		quirks: if end == EndKind::Doubled { Some(Quirks { double_game_end: true }) } else { None },
	};
	let mut sink = Sink::<200> { buf: [0; 200], len: 0, overflow: false };
	let r = peppi::io::slippi::write(&mut sink, &game);
	assert!(r.is_ok());
	assert!(!sink.overflow);
	let out = &sink.buf;
	let total = sink.len;
	// file = 11-byte signature, u32 raw length, raw element, closing brace (no metadata)
	let declared = u32::from_be_bytes([out[11], out[12], out[13], out[14]]) as usize;
	assert!(out[total - 1] == 0x7d);
	let actual_raw = total - 15 - 1;
	// without a Game End the reader cannot know where the raw element stops other than by this
	// number, so it has to be the real length in every case
	assert!(declared == actual_raw);
	// payload table: code 0x35, size byte, entries; first entry is Game Start with the block's length
	assert!(out[15] == 0x35);
	let table_len = out[16] as usize;
	assert!(table_len % 3 == 1);
	assert!(out[17] == 0x36 && out[18] == 0 && out[19] == 4);
	// Game Start event follows the table
	let gs = 15 + 1 + table_len;
	assert!(out[gs] == 0x36);
	assert!(out[gs + 1] == sb[0] && out[gs + 4] == sb[3]);
	// first frame event
	assert!(out[gs + 5] == 0x3A);
	// the table declares what the reader insists on - a Game Start and a Game End entry, whether
	// or not the stream has a Game End - and the sizes of the events that follow (seven entries
	// at 3.16 without Gecko codes; handing these bytes to the real parse_payloads costs 16 GB
	// and gives no verdict in 25 min, so the entries are looked up here)
	assert!(table_len == 22 && gs == 38);
	assert!(table_entry(out, 0x36) == Some(4));
	assert!(table_entry(out, 0x39) == Some(6));
	assert!(table_entry(out, 0x3A) == Some(12));
	assert!(table_entry(out, 0x3C) == Some(8));
	assert!(table_entry(out, 0x3B) == Some(44));
	assert!(table_entry(out, 0x37) == Some(6 + 58) && table_entry(out, 0x38) == Some(6 + 78));
	kani::cover!(true, "reached");
	forget(r);
	forget(game);
}

// @verif property=C01,C17 tier=quick mem=16 timeout=2400
// @encodes peppi::io::slippi::write, payload_sizes, PayloadSizes::raw_size, frame_counts, game_start, Frame::write on a game without Game End
// @symbolic 128 frame id, payloads, start block stand-in
// @bound one frame row, no items, no ports, no end, no metadata, 3.16.0
// @assume raw_size's lookup HashMap is replaced by a linear map under cfg(kani) (hashbrown is intractable); the length formula is the real expression
// @stub alloc::fmt::format = returns an empty String
#[kani::proof]
#[kani::unwind(60)]
#[kani::stub(alloc::fmt::format, format_stub)]
fn c01_raw_len_noend() {
	raw_len_case(EndKind::None, false);
}

// @verif property=C01,C17 tier=quick mem=16 timeout=2400
// @encodes peppi::io::slippi::write, PayloadSizes::raw_size, game_end with the doubled-Game-End quirk and two items
// @symbolic 816 frame id, payloads, start/end blocks
// @bound one frame row, two items, no ports, doubled Game End, no metadata, 3.16.0
// @assume raw_size's lookup HashMap is replaced by a linear map under cfg(kani)
// @stub alloc::fmt::format = returns an empty String
#[kani::proof]
#[kani::unwind(60)]
#[kani::stub(alloc::fmt::format, format_stub)]
fn c01_raw_len_dblend_k2() {
	raw_len_case(EndKind::Doubled, true);
}

// @verif property=C01,C17 tier=thorough mem=16 timeout=2400
// @encodes peppi::io::slippi::write, PayloadSizes::raw_size with a single Game End
// @symbolic 176 frame id, payloads, start/end blocks
// @bound one frame row, no items, no ports, one Game End, no metadata, 3.16.0
// @assume raw_size's lookup HashMap is replaced by a linear map under cfg(kani)
// @stub alloc::fmt::format = returns an empty String
#[kani::proof]
#[kani::unwind(60)]
#[kani::stub(alloc::fmt::format, format_stub)]
fn c01_raw_len_end() {
	raw_len_case(EndKind::One, false);
}

// @verif property=C01,C17,C10 tier=quick mem=8 timeout=600
// @encodes peppi::game::End::size (Game End payload size by version: used for the payload table of end-less games, the skip-frames jump and the doubled-Game-End detection)
// @symbolic 24 version triple
// @bound none - complete over all 2^24 versions
// @assume oracle: spec/start_layout.json "end" (1 byte; LRAS byte from 2.0; four placement bytes from 3.13)
#[kani::proof]
fn c01_game_end_size() {
	let v = Version(kani::any(), kani::any(), kani::any());
	let want = if vkey(v) >= 0x030d {
		6
	} else if vkey(v) >= 0x0200 {
		2
	} else {
		1
	};
	assert!(peppi::game::verif::end_size(v) == want);
	kani::cover!(vkey(v) == 0x030d, "3.13");
	kani::cover!(vkey(v) == 0x030c, "3.12");
}

fn gecko_case<const BLOCKS: usize>(lo: u32, hi: u32) {
	let fill: u8 = kani::any();
	let bytes: Vec<u8> = vec![fill; 512 * BLOCKS];
	let actual: u32 = kani::any();
	kani::assume(actual >= lo && actual <= hi);
	let codes = game::GeckoCodes { bytes, actual_size: actual };
	let mut sink = Sink::<1100> { buf: [0; 1100], len: 0, overflow: false };
	let r = peppi::io::slippi::ser::verif::gecko_codes(&mut sink, &codes);
	assert!(r.is_ok());
	assert!(!sink.overflow);
	// the size the writer adds to the declared raw length is exactly what it emits
	assert!(sink.len as u32 == peppi::io::slippi::ser::verif::gecko_codes_size(&codes));
	assert!(sink.len == 517 * BLOCKS);
	// each block: splitter code, 512 data bytes, u16 chunk size, wrapped code, final flag
	assert!(sink.buf[0] == 0x10 && sink.buf[515] == 0x3D);
	let last = 517 * (BLOCKS - 1);
	assert!(sink.buf[last + 516] == 1);
	let chunk = u16::from_be_bytes([sink.buf[last + 513], sink.buf[last + 514]]) as u32;
	assert!(chunk == actual - 512 * (BLOCKS as u32 - 1));
	kani::cover!(actual == hi, "last block completely full");
	kani::cover!(actual == lo, "last block holds one byte");
	forget(r);
	forget(codes);
}

// @verif property=C17,C01 tier=quick mem=12 timeout=1800
// @encodes peppi::io::slippi::ser::gecko_codes (emission) vs gecko_codes_size (declared length) for one 512-byte block
// @symbolic 40 actual size (1..=512) and the fill byte
// @bound one block; every actual size that keeps the block count at 1, incl. the completely full block
#[kani::proof]
#[kani::unwind(4)]
#[kani::stub(alloc::fmt::format, format_stub)]
fn c17_gecko_len_1() {
	gecko_case::<1>(1, 512);
}

// @verif property=C17,C01 tier=quick mem=12 timeout=1800
// @encodes peppi::io::slippi::ser::gecko_codes vs gecko_codes_size for two 512-byte blocks
// @symbolic 40 actual size (513..=1024) and the fill byte
// @bound two blocks; every actual size that keeps the block count at 2
#[kani::proof]
#[kani::unwind(4)]
#[kani::stub(alloc::fmt::format, format_stub)]
fn c17_gecko_len_2() {
	gecko_case::<2>(513, 1024);
}

// @verif property=C01,C17 tier=thorough mem=24 timeout=3600
// @encodes peppi::frame::immutable::Frame::write with one occupied port: PortData::{write_pre, write_post}, Data::{write_pre, write_post}, {Pre, Post}::write, event headers (code, frame id, port, follower flag)
// @symbolic 700 frame id, Pre and Post payloads
// @bound one frame row, one port (P3, no follower), version 1.0.0 (no Frame Start / Item / Frame End events)
// @assume the port's column set is a typed stack object (Vec::from_raw_parts), built through the real readers and From conversions
// @stub alloc::fmt::format = returns an empty String
#[kani::proof]
#[kani::unwind(56)]
#[kani::stub(alloc::fmt::format, format_stub)]
fn c01_frame_write_port_v1_0() {
	use peppi::frame::immutable::{Data as IData, PortData as IPortData};
	use peppi::frame::mutable::Data as MData;
	use peppi::game::Port;
	let v = Version(1, 0, 0);
	let id: i32 = kani::any();
	let pre: [u8; 52] = kani::any();
	let post: [u8; 31] = kani::any();
	let mut d = MData::with_capacity(0, v);
	let ok = d.pre.read_push(&mut &pre[..], v).is_ok() && d.post.read_push(&mut &post[..], v).is_ok();
	assert!(ok);
	let leader: IData = d.into();
	let mut store = core::mem::ManuallyDrop::new(IPortData { port: Port::P3, leader, follower: None });
	let ports = unsafe { Vec::from_raw_parts(&mut *store as *mut IPortData, 1, 1) };
	let frame = core::mem::ManuallyDrop::new(IFrame {
		id: arrow2::array::PrimitiveArray::from_vec(vec![id]),
		ports,
		start: None,
		end: None,
		item_offset: None,
		item: None,
	});
	const N: usize = 7 + 52 + 7 + 31;
	let mut out = [0u8; N];
	let mut w: &mut [u8] = &mut out[..];
	let r = frame.write(&mut w, v);
	assert!(r.is_ok());
	assert!(w.len() == 0);
	let idb = id.to_be_bytes();
	let mut exp = [0u8; N];
	let mut pos = 0;
	put(&mut exp, &mut pos, &[0x37]);
	put(&mut exp, &mut pos, &idb);
	put(&mut exp, &mut pos, &[2, 0]);
	put(&mut exp, &mut pos, &pre);
	put(&mut exp, &mut pos, &[0x38]);
	put(&mut exp, &mut pos, &idb);
	put(&mut exp, &mut pos, &[2, 0]);
	put(&mut exp, &mut pos, &post);
	let i: usize = kani::any();
	kani::assume(i < N);
	assert!(out[i] == exp[i]);
	kani::cover!(true, "reached");
	forget(r);
}

fn frame_counts_ics(leader_absent_too: bool) {
	use arrow2::bitmap::Bitmap;
	use peppi::frame::immutable::{Data as IData, PortData as IPortData};
	use peppi::frame::mutable::Data as MData;
	use peppi::game::Port;
	let v = Version(0, 1, 0);
	// frame_counts consults only the row count and the validity bitmaps, so the value columns stay
	// empty (filling them through the readers and push_null costs 13 min; C04 covers how the
	// bitmaps come about)
	let mut leader: IData = MData::with_capacity(0, v).into();
	let mut follower: IData = MData::with_capacity(0, v).into();
	follower.validity = Some(Bitmap::from([true, false]));
	if leader_absent_too {
		leader.validity = Some(Bitmap::from([true, false]));
	}
	let mut store = core::mem::ManuallyDrop::new(IPortData { port: Port::P1, leader, follower: Some(follower) });
	let ports = unsafe { Vec::from_raw_parts(&mut *store as *mut IPortData, 1, 1) };
	let id0: i32 = kani::any();
	let id1: i32 = kani::any();
	let frame = core::mem::ManuallyDrop::new(IFrame {
		id: arrow2::array::PrimitiveArray::from_vec(vec![id0, id1]),
		ports,
		start: None,
		end: None,
		item_offset: None,
		item: None,
	});
	let (frames, frame_data, items) = peppi::io::slippi::ser::verif::frame_counts(&frame);
	assert!(frames == 2);
	assert!(items == 0);
	// present (character, row) pairs: leader+follower in row 0, plus the leader in row 1 in the second pattern
	assert!(frame_data == if leader_absent_too { 2 } else { 3 });
}

// @verif property=C17,C01 tier=quick mem=16 timeout=2400
// @encodes peppi::io::slippi::ser::frame_counts on an Ice Climbers port whose leader and follower are both absent from the second of two frames
// @symbolic 64 the two frame ids
// @bound two frame rows, one Ice Climbers port, version 0.1.0; validity bitmaps [1,0] given directly, value columns empty
// @assume the port's column set is a typed stack object
// @assume oracle: number of Frame Pre (= Frame Post) events the writer emits = number of (character, row) pairs that are present
// @stub alloc::fmt::format = returns an empty String
#[kani::proof]
#[kani::unwind(10)]
#[kani::stub(alloc::fmt::format, format_stub)]
fn c17_frame_counts_ics_absent() {
	frame_counts_ics(true);
	kani::cover!(true, "reached");
}

// @verif property=C17,C01 tier=quick mem=16 timeout=2400
// @encodes peppi::io::slippi::ser::frame_counts on an Ice Climbers port whose follower alone is absent from the second of two frames
// @symbolic 64 the two frame ids
// @bound two frame rows, one Ice Climbers port, version 0.1.0; validity bitmaps given directly, value columns empty
// @assume the port's column set is a typed stack object
// @stub alloc::fmt::format = returns an empty String
#[kani::proof]
#[kani::unwind(10)]
#[kani::stub(alloc::fmt::format, format_stub)]
fn c17_frame_counts_ics_follower_absent() {
	frame_counts_ics(false);
	kani::cover!(true, "reached");
}

// @verif property=C13,C04:thorough tier=quick mem=16 timeout=2400
// @encodes peppi::frame::mutable::Frame::transpose_one (in-progress representation): frame id, start, end and the per-frame item slice delimited by the item offsets
// @symbolic 1100 two frame ids, start/end payloads, three item payloads
// @bound port-free mutable frame columns, version 3.16.0, two completed rows with 1 and 2 items; both rows viewed, the newest one included
// @assume columns filled directly through the real readers (not through parse_event)
// @stub alloc::fmt::format = returns an empty String
#[kani::proof]
#[kani::unwind(10)]
#[kani::stub(alloc::fmt::format, format_stub)]
fn c13_mut_frame_item_slices() {
	let v = Version(3, 16, 0);
	let ids: [i32; 2] = kani::any();
	let sp: [[u8; 8]; 2] = kani::any();
	let ep: [[u8; 4]; 2] = kani::any();
	let ip: [[u8; 40]; 3] = kani::any();
	let mut f = MFrame::with_capacity(0, v, &[]);
	let ok = match (f.start.as_mut(), f.item.as_mut(), f.end.as_mut(), f.item_offset.as_mut()) {
		(Some(s), Some(it), Some(e), Some(off)) => {
			let mut ok = true;
			// row 0: one item; row 1: two items
			f.id.push(Some(ids[0]));
			ok = ok && s.read_push(&mut &sp[0][..], v).is_ok();
			ok = ok && it.read_push(&mut &ip[0][..], v).is_ok();
			ok = ok && off.try_push(1).is_ok();
			ok = ok && e.read_push(&mut &ep[0][..], v).is_ok();
			f.id.push(Some(ids[1]));
			ok = ok && s.read_push(&mut &sp[1][..], v).is_ok();
			ok = ok && it.read_push(&mut &ip[1][..], v).is_ok();
			ok = ok && it.read_push(&mut &ip[2][..], v).is_ok();
			ok = ok && off.try_push(2).is_ok();
			ok && e.read_push(&mut &ep[1][..], v).is_ok()
		}
		_ => false,
	};
	assert!(ok);
	let counts = [1usize, 2usize];
	let firsts = [0usize, 1usize];
	let mut i = 0;
	while i < 2 {
		let t = f.transpose_one(i, v);
		assert!(t.id == ids[i]);
		match (&t.start, f.start.as_ref()) {
			(Some(ts), Some(cs)) => assert!(ts.random_seed == cs.random_seed.values()[i]),
			_ => assert!(false),
		}
		match (&t.end, f.end.as_ref()) {
			(Some(te), Some(ce)) => assert!(te.latest_finalized_frame == ce.latest_finalized_frame.as_ref().map(|c| c.values()[i])),
			_ => assert!(false),
		}
		match (&t.items, f.item.as_ref()) {
			(Some(items), Some(col)) => {
				// exactly the slice delimited by the row's item offsets
				assert!(items.len() == counts[i]);
				let mut j = 0;
				while j < counts[i] {
					assert!(items[j].id == col.id.values()[firsts[i] + j]);
					assert!(items[j].r#type == col.r#type.values()[firsts[i] + j]);
					assert!(items[j].id == u32::from_be_bytes([ip[firsts[i] + j][29], ip[firsts[i] + j][30], ip[firsts[i] + j][31], ip[firsts[i] + j][32]]));
					j += 1;
				}
			}
			_ => assert!(false),
		}
		forget(t);
		i += 1;
	}
	kani::cover!(true, "reached");
	forget(f);
}
