//! C10 / C11 / C07 – the one-shot reader `slippi::read` end to end on a small port-free file:
//! skip-frames path (jump arithmetic), hashing of the whole file on both paths, tail handling.
use crate::c11::{SliceRS, LOG_N};
use crate::util::*;
use core::mem::forget;
use peppi::game::Game as _;
use peppi::io::slippi::de::Opts;
use peppi::io::slippi::{read, Version};
use std::io::{Read, Seek, SeekFrom};
use xxhash_rust::xxh3::Xxh3;

const SIG: [u8; 11] = [0x7b, 0x55, 0x03, 0x72, 0x61, 0x77, 0x5b, 0x24, 0x55, 0x23, 0x6c];

/// layout of the test file (version 0.1 => 1-byte Game End, no frame events without players)
const TABLE: usize = 15; // 0x35, size, 3 entries
const TABLE_LEN: usize = 2 + 9;
const START: usize = TABLE + TABLE_LEN; // 0x36 + 320 bytes
const GAP: usize = START + 321;

static mut FILE_COPY: [u8; 400] = [0; 400];
static mut HASHED: usize = 0;
static mut HASH_MISMATCH: bool = false;

/// Recorder standing in for `Xxh3::update`: checks that the hasher is fed the file's bytes in
/// order, without gaps or repeats (XXH3's contract: digest = f(concatenation of the updates)).
fn update_check(_h: &mut Xxh3, input: &[u8]) {
	unsafe {
		// one solver-chosen index per call stands for every byte of this update
		let j: usize = kani::any();
		if j < input.len() && (HASHED + j >= 400 || FILE_COPY[HASHED + j] != input[j]) {
			HASH_MISMATCH = true;
		}
		HASHED += input.len();
	}
}

/// Builds the file: `gap` bytes between Game Start and Game End (unknown 1-byte events 0x40 when
/// `parseable`, arbitrary bytes otherwise), optional doubled Game End.  Returns total length.
fn build<const G: usize>(f: &mut [u8; 400], parseable: bool, double_end: bool) -> usize {
	// Symbolic regions: the random seed of the Game Start block, the gap bytes and the Game End
	// method.  The rest of the start block is zero: its parsing is C05's subject, and a fully
	// symbolic block makes the one-shot reader cost > 10 min and > 13 GB.
	let keep: [u8; 400] = *f;
	*f = [0u8; 400];
	let mut k = 0;
	while k < 4 {
		f[START + 1 + 316 + k] = keep[START + 1 + 316 + k];
		k += 1;
	}
	let mut k = 0;
	while k < G {
		f[GAP + k] = keep[GAP + k];
		k += 1;
	}
	let mut i = 0;
	while i < 11 {
		f[i] = SIG[i];
		i += 1;
	}
	let ends = if double_end { 2 } else { 1 };
	let raw_len = TABLE_LEN + 321 + G + 2 * ends;
	let rl = (raw_len as u32).to_be_bytes();
	f[11] = rl[0];
	f[12] = rl[1];
	f[13] = rl[2];
	f[14] = rl[3];
	f[TABLE] = 0x35;
	f[TABLE + 1] = 10;
	f[TABLE + 2] = 0x36;
	f[TABLE + 3] = 1;
	f[TABLE + 4] = 0x40; // 320
	f[TABLE + 5] = 0x39;
	f[TABLE + 6] = 0;
	f[TABLE + 7] = 1;
	f[TABLE + 8] = 0x40; // unknown event, 1-byte payload
	f[TABLE + 9] = 0;
	f[TABLE + 10] = 1;
	f[START] = 0x36;
	f[START + 1] = 0; // version 0.1.0
	f[START + 2] = 1;
	f[START + 3] = 0;
	// no occupied ports (type byte 3 in all six slots)
	let mut p = 0;
	while p < 6 {
		f[START + 1 + 100 + 36 * p + 1] = 3;
		p += 1;
	}
	if parseable {
		let mut g = 0;
		while g + 1 < G {
			f[GAP + g] = 0x40;
			g += 2;
		}
	}
	let mut pos = GAP + G;
	let mut e = 0;
	while e < ends {
		f[pos] = 0x39;
		// method byte concrete ("game"): a symbolic one makes parse_event's Err path reachable,
		// and that path drops the half-built parser state inside read() (arrow2 drop glue
		// does not terminate under CBMC)
		f[pos + 1] = 2;
		pos += 2;
		e += 1;
	}
	f[pos] = 0x7d;
	pos + 1
}

fn read_case<const G: usize>(skip: bool, hash: bool, double_end: bool) {
	let mut f: [u8; 400] = kani::any();
	let total = build::<G>(&mut f, !skip, double_end);
	let m = f[GAP + G + 1];
	assert!(m == 2);
	unsafe {
		FILE_COPY = f;
		HASHED = 0;
		HASH_MISMATCH = false;
	}
	let opts = Opts { skip_frames: skip, compute_hash: hash, debug: None };
	let res = read(SliceRS { data: &f[..total], pos: 0 }, Some(&opts));
	match &res {
		Ok(g) => {
			// start / end equal the file's raw blocks, whichever path was taken
			assert!(g.start.bytes.0.len() == 320);
			let i: usize = kani::any();
			kani::assume(i < 320);
			assert!(g.start.bytes.0[i] == f[START + 1 + i]);
			assert!(g.start.slippi.version == Version(0, 1, 0));
			match &g.end {
				Some(e) => {
					assert!(e.bytes.0.len() == 1 && e.bytes.0[0] == m);
					assert!(e.method as u8 == m);
				}
				None => assert!(false),
			}
			assert!(g.frames.id.len() == 0);
			assert!(g.metadata.is_none());
			// the doubled-Game-End quirk is only observable on the full path (the skip path jumps
			// straight to the last Game End; C10 does not ask for the flag)
			if !skip {
				assert!(g.quirks.map_or(false, |q| q.double_game_end) == double_end);
			}
			// hash reported iff requested; when requested the hasher saw the entire file, in order
			assert!(g.hash.is_some() == hash);
			if hash {
				unsafe {
					assert!(!HASH_MISMATCH);
					assert!(HASHED == total);
				}
			}
		}
		Err(_) => assert!(false),
	}
	kani::cover!(true, "reached");
	forget(res);
}

/// Native twin of `read_case` (replay target: the hash oracle of the harness is a stub).
/// Same file from the same solver-chosen bytes, real XXH3, every start byte compared.
fn read_case_twin<const G: usize>(skip: bool, hash: bool, double_end: bool) {
	let mut f: [u8; 400] = kani::any();
	let total = build::<G>(&mut f, !skip, double_end);
	let m = f[GAP + G + 1];
	let opts = Opts { skip_frames: skip, compute_hash: hash, debug: None };
	let g = read(SliceRS { data: &f[..total], pos: 0 }, Some(&opts)).expect("read() failed on a well-formed file");
	assert!(g.start.bytes.0[..] == f[START + 1..START + 321], "start block differs from the file");
	let e = g.end.as_ref().expect("no Game End");
	assert!(e.bytes.0[..] == [m], "Game End block differs from the file");
	assert!(g.frames.id.len() == 0);
	assert!(skip || g.quirks.map_or(false, |q| q.double_game_end) == double_end, "doubled Game End not recognised");
	let want = format!("xxh3:{:016x}", xxhash_rust::xxh3::xxh3_64(&f[..total]));
	assert!(g.hash == if hash { Some(want) } else { None }, "hash is not XXH3-64 of the whole file");
}

pub fn c10_read_skip_hash_twin() {
	read_case_twin::<6>(true, true, false);
}

pub fn c10_read_skip_nohash_dblend_twin() {
	read_case_twin::<6>(true, false, true);
}

pub fn c10_read_full_hash_twin() {
	read_case_twin::<6>(false, true, false);
}

// @verif property=C10,C11 tier=quick mem=24 timeout=3000
// @encodes peppi::io::slippi::read (skip-frames path: jump arithmetic, hashed copy through Take instead of seek), parse_header, parse_start, parse_payloads, game_start, parse_event (Game End), HashingReader, tail handling
// @symbolic 88 random seed of the Game Start block, 6 arbitrary gap bytes, (Game End method concrete)
// @bound one port-free 0.1 file (1-byte Game End), 6 skipped bytes between Game Start and Game End, no metadata; hashing on
// @assume file skeleton (signature, raw length, payload table, event codes) and the Game Start block except its random seed are concrete; see build()
// @stub std::io::copy = a plain read/write_all loop over a 4-byte buffer (util::copy_stub): std's implementation initialises an 8 KiB buffer element by element, which did not finish in 90 min; the contract kept is "everything the reader yields, in order, until it is exhausted"
// @stub xxhash_rust::xxh3::Xxh3::update = recorder comparing its input with the file, in order
// @stub alloc::fmt::format = returns an empty String
// @stub std::hash::RandomState::new = fixed keys
// @cbmc --max-field-sensitivity-array-size 1024
// @replay twin=c10_read_skip_hash_twin
#[kani::proof]
#[kani::unwind(12)]
#[kani::stub(alloc::fmt::format, format_stub)]
#[kani::stub(std::hash::RandomState::new, random_state_stub)]
#[kani::stub(xxhash_rust::xxh3::Xxh3::update, update_check)]
#[kani::stub(std::io::copy, copy_stub)]
fn c10_read_skip_hash() {
	read_case::<6>(true, true, false);
}

// @verif property=C10,C11 tier=quick mem=24 timeout=3000
// @encodes peppi::io::slippi::read (skip-frames path with seek, hashing off), parse_start, game_start, parse_event (Game End), tail handling incl. the doubled-Game-End quirk
// @symbolic 88 random seed of the Game Start block, 6 arbitrary gap bytes, (Game End method concrete)
// @bound one port-free 0.1 file, 6 skipped bytes, doubled Game End, no metadata; hashing off
// @assume file skeleton is concrete; see build()
// @stub xxhash_rust::xxh3::Xxh3::update = recorder
// @stub alloc::fmt::format = returns an empty String
// @stub std::hash::RandomState::new = fixed keys
// @cbmc --max-field-sensitivity-array-size 1024
// @replay twin=c10_read_skip_nohash_dblend_twin
#[kani::proof]
#[kani::unwind(12)]
#[kani::stub(alloc::fmt::format, format_stub)]
#[kani::stub(std::hash::RandomState::new, random_state_stub)]
#[kani::stub(xxhash_rust::xxh3::Xxh3::update, update_check)]
fn c10_read_skip_nohash_dblend() {
	read_case::<6>(true, false, true);
}

// @verif property=C10,C11,C08:thorough,C12:thorough tier=quick mem=24 timeout=3000
// @encodes peppi::io::slippi::read (full path: event loop over unknown events up to Game End), hashing on
// @symbolic 64 random seed of the Game Start block, payloads of 3 unknown events, (Game End method concrete)
// @bound one port-free 0.1 file, three unknown 1-byte events between Game Start and Game End, no metadata; hashing on
// @assume file skeleton is concrete; see build()
// @stub xxhash_rust::xxh3::Xxh3::update = recorder comparing its input with the file, in order
// @stub alloc::fmt::format = returns an empty String
// @stub std::hash::RandomState::new = fixed keys
// @cbmc --max-field-sensitivity-array-size 1024
// @replay twin=c10_read_full_hash_twin
#[kani::proof]
#[kani::unwind(12)]
#[kani::stub(alloc::fmt::format, format_stub)]
#[kani::stub(std::hash::RandomState::new, random_state_stub)]
#[kani::stub(xxhash_rust::xxh3::Xxh3::update, update_check)]
fn c10_read_full_hash() {
	read_case::<6>(false, true, false);
}

// @verif property=C10,C11:thorough tier=quick mem=24 timeout=3000
// @encodes peppi::io::slippi::read skip-frames path on a file that carries a Gecko-code block (message splitter) between Game Start and the skipped region
// @symbolic 4200 the 512 data bytes and size field of the splitter block, 4 gap bytes, (Game End method concrete), random seed of the start block
// @bound one port-free 3.3-style table (0x10/0x3D declared) on a 0.1 start block, one final splitter block, 4 skipped bytes, no metadata; hashing off
// @assume file skeleton is concrete; the Game Start block says version 0.1 (1-byte Game End) while the table declares the splitter events - the reader only consults the table
// @stub xxhash_rust::xxh3::Xxh3::update = recorder
// @stub alloc::fmt::format = returns an empty String
// @stub std::hash::RandomState::new = fixed keys
// @cbmc --max-field-sensitivity-array-size 1024
#[kani::proof]
#[kani::unwind(12)]
#[kani::stub(alloc::fmt::format, format_stub)]
#[kani::stub(std::hash::RandomState::new, random_state_stub)]
#[kani::stub(xxhash_rust::xxh3::Xxh3::update, update_check)]
fn c10_read_skip_gecko() {
	const N: usize = 15 + 17 + 321 + 517 + 4 + 2 + 1;
	let keep: [u8; N] = kani::any();
	// only the splitter block, the gap, the (Game End method concrete) and the start block's seed are symbolic
	let mut f: [u8; N] = [0u8; N];
	{
		let g0 = 15 + 17 + 321;
		f[g0..g0 + 517 + 4 + 2].copy_from_slice(&keep[g0..g0 + 517 + 4 + 2]);
		f[15 + 17 + 1 + 316..15 + 17 + 1 + 320].copy_from_slice(&keep[15 + 17 + 1 + 316..15 + 17 + 1 + 320]);
	}
	let mut i = 0;
	while i < 11 {
		f[i] = SIG[i];
		i += 1;
	}
	let raw_len = (17 + 321 + 517 + 4 + 2) as u32;
	let rl = raw_len.to_be_bytes();
	f[11] = rl[0];
	f[12] = rl[1];
	f[13] = rl[2];
	f[14] = rl[3];
	// payload table: 5 entries
	let t = 15;
	f[t] = 0x35;
	f[t + 1] = 16;
	f[t + 2] = 0x36;
	f[t + 3] = 1;
	f[t + 4] = 0x40;
	f[t + 5] = 0x39;
	f[t + 6] = 0;
	f[t + 7] = 1;
	f[t + 8] = 0x10;
	f[t + 9] = 2;
	f[t + 10] = 4; // 516
	f[t + 11] = 0x3D;
	f[t + 12] = 0;
	f[t + 13] = 100;
	f[t + 14] = 0x40;
	f[t + 15] = 0;
	f[t + 16] = 1;
	let st = t + 17;
	f[st] = 0x36;
	f[st + 1] = 0;
	f[st + 2] = 1;
	f[st + 3] = 0;
	let mut p = 0;
	while p < 6 {
		f[st + 1 + 100 + 36 * p + 1] = 3;
		p += 1;
	}
	let g = st + 321;
	f[g] = 0x10;
	f[g + 513] = 0;
	f[g + 514] = 100; // chunk size concrete: no error path may be reachable inside read() (drop glue)
	f[g + 515] = 0x3D;
	f[g + 516] = 1;
	let e = g + 517 + 4;
	f[e] = 0x39;
	f[e + 1] = 2;
	let m = 2u8;
	f[e + 2] = 0x7d;
	let opts = Opts { skip_frames: true, compute_hash: false, debug: None };
	let res = read(SliceRS { data: &f[..], pos: 0 }, Some(&opts));
	match &res {
		Ok(game) => {
			match &game.end {
				Some(end) => assert!(end.bytes.0.len() == 1 && end.bytes.0[0] == m),
				None => assert!(false),
			}
			assert!(game.frames.id.len() == 0);
			assert!(game.start.bytes.0.len() == 320);
			let i: usize = kani::any();
			kani::assume(i < 320);
			assert!(game.start.bytes.0[i] == f[st + 1 + i]);
			assert!(game.hash.is_none());
		}
		Err(_) => assert!(false),
	}
	kani::cover!(true, "reached");
	forget(res);
}


/// read() on the first `cut` bytes of `f`, both ways of reading; the result must be Err.
fn read_cut(f: &[u8], cut: usize, skip: bool) {
	let opts = Opts { skip_frames: skip, compute_hash: false, debug: None };
	let res = read(SliceRS { data: &f[..cut], pos: 0 }, Some(&opts));
	// a proper prefix of a finished file is never a game
	assert!(res.is_err());
	forget(res);
}

/// The build() file with a metadata element opened after the last event:
/// `U\x08metadata{` in place of the closing brace.  Returns the new total length.
fn with_metadata_key(f: &mut [u8; 400], total: usize) -> usize {
	let key: [u8; 11] = [0x55, 0x08, 0x6d, 0x65, 0x74, 0x61, 0x64, 0x61, 0x74, 0x61, 0x7b];
	let mut k = 0;
	while k < 11 {
		f[total - 1 + k] = key[k];
		k += 1;
	}
	total - 1 + 11
}

// @verif property=C07,C06:thorough tier=quick mem=24 timeout=3000
// @encodes peppi::io::slippi::read end to end on a finished file cut exactly one byte before its end (the closing brace, the last read of the file, is missing), skip-frames and full path
// @symbolic 88 random seed of the Game Start block, 6 gap bytes (arbitrary on the skip path)
// @bound one port-free 0.1 file (build()), cut at total-1; the cut position is concrete (a solver-chosen one makes every read's outcome symbolic, and an Err return whose position is symbolic drops the parser state on a merged path, which does not finish)
// @assume file skeleton concrete; see build()
// @stub alloc::fmt::format = returns an empty String
// @stub std::hash::RandomState::new = fixed keys
// @cbmc --max-field-sensitivity-array-size 1024
#[kani::proof]
#[kani::unwind(12)]
#[kani::stub(alloc::fmt::format, format_stub)]
#[kani::stub(std::hash::RandomState::new, random_state_stub)]
#[kani::stub(xxhash_rust::xxh3::Xxh3::update, update_check)]
fn c07_read_cut_last_byte() {
	let mut f: [u8; 400] = kani::any();
	let total = build::<6>(&mut f, false, false);
	read_cut(&f, total - 1, true);
	let mut f: [u8; 400] = kani::any();
	let total = build::<6>(&mut f, true, false);
	read_cut(&f, total - 1, false);
	kani::cover!(true, "reached");
}

// @verif property=C07,C06:thorough tier=quick mem=24 timeout=3000
// @encodes peppi::io::slippi::read, parse_metadata, peppi::io::expect_bytes on a file cut inside the `metadata` key that follows the last event
// @symbolic 88 random seed of the Game Start block, 6 gap bytes
// @bound one port-free 0.1 file (build()) with `U\x08metadata{` after the Game End, cut after 5 bytes of the key; skip-frames path
// @assume file skeleton and cut position concrete
// @stub alloc::fmt::format = returns an empty String
// @stub std::hash::RandomState::new = fixed keys
// @cbmc --max-field-sensitivity-array-size 1024
#[kani::proof]
#[kani::unwind(12)]
#[kani::stub(alloc::fmt::format, format_stub)]
#[kani::stub(std::hash::RandomState::new, random_state_stub)]
#[kani::stub(xxhash_rust::xxh3::Xxh3::update, update_check)]
fn c07_read_cut_in_metadata_key() {
	let mut f: [u8; 400] = kani::any();
	let total = build::<6>(&mut f, false, false);
	let total = with_metadata_key(&mut f, total);
	read_cut(&f, total - 6, true);
	kani::cover!(true, "reached");
}

// @verif property=C07,C06 tier=thorough mem=24 timeout=3600
// @encodes peppi::io::slippi::read on a finished file cut inside the Game End event, inside the skipped / unknown-event region, inside the Game Start block and inside the payload table
// @symbolic 88 random seed of the Game Start block, 6 gap bytes
// @bound one port-free 0.1 file (build()); four concrete cut positions, full path (the skip path is covered for the tail by c07_read_cut_last_byte)
// @assume file skeleton and cut positions concrete
// @stub alloc::fmt::format = returns an empty String
// @stub std::hash::RandomState::new = fixed keys
// @cbmc --max-field-sensitivity-array-size 1024
#[kani::proof]
#[kani::unwind(12)]
#[kani::stub(alloc::fmt::format, format_stub)]
#[kani::stub(std::hash::RandomState::new, random_state_stub)]
#[kani::stub(xxhash_rust::xxh3::Xxh3::update, update_check)]
fn c07_read_cut_inside_events() {
	let mut f: [u8; 400] = kani::any();
	let total = build::<6>(&mut f, true, false);
	// Game End code present, payload missing
	read_cut(&f, total - 2, false);
	// inside the unknown events
	read_cut(&f, GAP + 3, false);
	// inside the Game Start block
	read_cut(&f, START + 100, false);
	// inside the payload table
	read_cut(&f, TABLE + 5, false);
	kani::cover!(true, "reached");
}

/// A file whose skipped region is `gap` bytes long for a solver-chosen `gap`: the bytes are never
/// materialised.  `head` (signature .. Game Start) is served from a buffer; the tail (Game End
/// events and the closing brace) from `tail`, one byte per read.  A relative seek from the end
/// of the head is compared with the one distance that lands on the last Game End; any other
/// distance, a read inside the skipped region, a multi-byte read in the tail or a read past the
/// end is recorded in a flag and the stream continues at a concrete position (so that the rest
/// of read() stays concrete); the harness fails on the flags.
struct GapFile<'a> {
	head: &'a [u8],
	pos: usize,
	gap: usize,
	tail: &'a [u8],
	/// offset of the last Game End inside `tail`
	last_end: usize,
	in_tail: bool,
	tail_off: usize,
}

static mut SEEK_WRONG: bool = false;
static mut SEEKS: usize = 0;
static mut GAP_READS: usize = 0;
static mut BULK_READS: usize = 0;
static mut PAST_END: bool = false;

impl<'a> Read for GapFile<'a> {
	fn read(&mut self, buf: &mut [u8]) -> std::io::Result<usize> {
		if self.in_tail {
			if buf.len() != 1 {
				// the tail of this file is read byte by byte (event code, 1-byte payload, brace)
				unsafe { BULK_READS += 1 };
				return Ok(buf.len());
			}
			if self.tail_off < self.tail.len() {
				buf[0] = self.tail[self.tail_off];
				self.tail_off += 1;
			} else {
				unsafe { PAST_END = true };
				buf[0] = 0x7d;
			}
			Ok(1)
		} else if self.pos < self.head.len() {
			let avail = self.head.len() - self.pos;
			let n = if buf.len() < avail { buf.len() } else { avail };
			buf[..n].copy_from_slice(&self.head[self.pos..self.pos + n]);
			self.pos += n;
			Ok(n)
		} else {
			// reading inside the skipped region: not expected on the seek path
			unsafe { GAP_READS += 1 };
			self.in_tail = true;
			self.tail_off = self.last_end;
			Ok(buf.len())
		}
	}
}

impl<'a> Seek for GapFile<'a> {
	fn seek(&mut self, pos: SeekFrom) -> std::io::Result<u64> {
		unsafe { SEEKS += 1 };
		let right = match pos {
			SeekFrom::Current(d) => !self.in_tail && self.pos == self.head.len() && d >= 0 && d as u64 == (self.gap + self.last_end) as u64,
			_ => false,
		};
		if !right {
			unsafe { SEEK_WRONG = true };
		}
		self.in_tail = true;
		self.tail_off = self.last_end;
		Ok((self.head.len() + self.gap + self.last_end) as u64)
	}
}

fn gap_head(f: &mut [u8; GAP], gap: u32, ends: usize) {
	let keep: [u8; GAP] = *f;
	*f = [0u8; GAP];
	let mut k = 0;
	while k < 4 {
		f[START + 1 + 316 + k] = keep[START + 1 + 316 + k];
		k += 1;
	}
	let mut i = 0;
	while i < 11 {
		f[i] = SIG[i];
		i += 1;
	}
	let raw_len = (TABLE_LEN + 321 + 2 * ends) as u32 + gap;
	let rl = raw_len.to_be_bytes();
	f[11] = rl[0];
	f[12] = rl[1];
	f[13] = rl[2];
	f[14] = rl[3];
	f[TABLE] = 0x35;
	f[TABLE + 1] = 10;
	f[TABLE + 2] = 0x36;
	f[TABLE + 3] = 1;
	f[TABLE + 4] = 0x40;
	f[TABLE + 5] = 0x39;
	f[TABLE + 6] = 0;
	f[TABLE + 7] = 1;
	f[TABLE + 8] = 0x40;
	f[TABLE + 9] = 0;
	f[TABLE + 10] = 1;
	f[START] = 0x36;
	f[START + 1] = 0;
	f[START + 2] = 1;
	f[START + 3] = 0;
	let mut p = 0;
	while p < 6 {
		f[START + 1 + 100 + 36 * p + 1] = 3;
		p += 1;
	}
}

fn gap_case(double_end: bool) {
	// every length of the skipped region a 32-bit raw length can express
	let gap: u32 = kani::any();
	kani::assume(gap <= u32::MAX - 400);
	let ends = if double_end { 2 } else { 1 };
	let mut head: [u8; GAP] = kani::any();
	gap_head(&mut head, gap, ends);
	let tail1: [u8; 3] = [0x39, 2, 0x7d];
	let tail2: [u8; 5] = [0x39, 2, 0x39, 2, 0x7d];
	let tail: &[u8] = if double_end { &tail2 } else { &tail1 };
	unsafe {
		SEEK_WRONG = false;
		SEEKS = 0;
		GAP_READS = 0;
		BULK_READS = 0;
		PAST_END = false;
	}
	let file = GapFile { head: &head, pos: 0, gap: gap as usize, tail, last_end: 2 * (ends - 1), in_tail: false, tail_off: 0 };
	let opts = Opts { skip_frames: true, compute_hash: false, debug: None };
	let res = read(file, Some(&opts));
	match &res {
		Ok(g) => {
			unsafe {
				// one relative seek, by exactly the distance to the last Game End, no read in
				// between, then the Game End and the closing brace and nothing else
				assert!(SEEKS == 1);
				assert!(!SEEK_WRONG);
				assert!(GAP_READS == 0);
				assert!(BULK_READS == 0);
				assert!(!PAST_END);
			}
			assert!(g.start.bytes.0.len() == 320);
			let i: usize = kani::any();
			kani::assume(i < 320);
			assert!(g.start.bytes.0[i] == head[START + 1 + i]);
			match &g.end {
				Some(e) => assert!(e.bytes.0.len() == 1 && e.bytes.0[0] == 2),
				None => assert!(false),
			}
			assert!(g.frames.id.len() == 0);
			assert!(g.metadata.is_none());
			assert!(g.hash.is_none());
		}
		Err(_) => assert!(false),
	}
	kani::cover!(gap == 0, "nothing to skip");
	kani::cover!(gap > (1 << 20), "more than 1 MiB skipped");
	kani::cover!(gap > 0x7fff_ffff, "more than 2 GiB skipped");
	forget(res);
}

/// Native twin: the same virtual file served byte-exactly (zeros in the skipped region), real
/// seeks; read() must succeed with the file's Game Start and Game End.
struct GapFileReal<'a> {
	head: &'a [u8],
	gap: u64,
	tail: &'a [u8],
	pos: u64,
}

impl<'a> Read for GapFileReal<'a> {
	fn read(&mut self, buf: &mut [u8]) -> std::io::Result<usize> {
		let h = self.head.len() as u64;
		let total = h + self.gap + self.tail.len() as u64;
		let mut n = 0;
		while n < buf.len() && self.pos < total {
			buf[n] = if self.pos < h {
				self.head[self.pos as usize]
			} else if self.pos < h + self.gap {
				0
			} else {
				self.tail[(self.pos - h - self.gap) as usize]
			};
			self.pos += 1;
			n += 1;
		}
		Ok(n)
	}
}

impl<'a> Seek for GapFileReal<'a> {
	fn seek(&mut self, pos: SeekFrom) -> std::io::Result<u64> {
		match pos {
			SeekFrom::Current(d) => self.pos = (self.pos as i64 + d) as u64,
			SeekFrom::Start(p) => self.pos = p,
			SeekFrom::End(d) => self.pos = ((self.head.len() as u64 + self.gap + self.tail.len() as u64) as i64 + d) as u64,
		}
		Ok(self.pos)
	}
}

fn gap_case_twin(double_end: bool) {
	let gap: u32 = kani::any();
	let ends = if double_end { 2 } else { 1 };
	let mut head: [u8; GAP] = kani::any();
	gap_head(&mut head, gap, ends);
	let tail1: [u8; 3] = [0x39, 2, 0x7d];
	let tail2: [u8; 5] = [0x39, 2, 0x39, 2, 0x7d];
	let tail: &[u8] = if double_end { &tail2 } else { &tail1 };
	let file = GapFileReal { head: &head, gap: gap as u64, tail, pos: 0 };
	let opts = Opts { skip_frames: true, compute_hash: false, debug: None };
	let g = read(file, Some(&opts)).expect("read() with skip_frames failed on a well-formed file");
	assert!(g.start.bytes.0[..] == head[START + 1..START + 321], "start block differs from the file");
	let e = g.end.as_ref().expect("no Game End");
	assert!(e.bytes.0[..] == [2u8], "Game End block differs from the file");
	assert!(g.frames.id.len() == 0);
}

pub fn c10_read_skip_seek_any_gap_twin() {
	gap_case_twin(false);
}

// @verif property=PROBE tier=thorough mem=24 timeout=5400
// @encodes peppi::io::slippi::read (skip-frames path with seek: jump arithmetic from the header's raw length), parse_header, parse_start, parse_event (Game End), tail handling
// @symbolic 64 length of the skipped region (every value a 32-bit raw length can express), random seed of the Game Start block
// @bound one port-free 0.1 file (1-byte Game End) whose skipped region has a solver-chosen length 0 ..= 2^32-401; hashing off; no metadata
// @assume the skipped bytes are never materialised: the stream is a virtual file (GapFile) that compares the one relative seek read() performs with the distance to the last Game End; file skeleton concrete
// @stub alloc::fmt::format = returns an empty String
// @stub std::hash::RandomState::new = fixed keys
// @cbmc --max-field-sensitivity-array-size 1024
// @replay twin=c10_read_skip_seek_any_gap_twin
#[kani::proof]
#[kani::unwind(12)]
#[kani::stub(alloc::fmt::format, format_stub)]
#[kani::stub(std::hash::RandomState::new, random_state_stub)]
fn c10_read_skip_seek_any_gap() {
	gap_case(false);
}

/// A port-free 3.0.0 file with ONE frame: payload table (Game Start 320, Game End 2, Frame Start
/// 8, Frame End 4), Game Start, Frame Start, Frame End, Game End, closing brace.  Symbolic: the
/// frame's random seed.  Returns (total length, offset of the Frame End code, offset of the
/// Game End code).
fn build_one_frame(f: &mut [u8; 400]) -> (usize, usize, usize) {
	let keep: [u8; 400] = *f;
	*f = [0u8; 400];
	let mut i = 0;
	while i < 11 {
		f[i] = SIG[i];
		i += 1;
	}
	let t = 15;
	f[t] = 0x35;
	f[t + 1] = 13;
	f[t + 2] = 0x36;
	f[t + 3] = 1;
	f[t + 4] = 0x40; // 320
	f[t + 5] = 0x39;
	f[t + 6] = 0;
	f[t + 7] = 2;
	f[t + 8] = 0x3A;
	f[t + 9] = 0;
	f[t + 10] = 8;
	f[t + 11] = 0x3C;
	f[t + 12] = 0;
	f[t + 13] = 4;
	let st = t + 14;
	f[st] = 0x36;
	f[st + 1] = 3; // version 3.0.0
	f[st + 2] = 0;
	f[st + 3] = 0;
	let mut p = 0;
	while p < 6 {
		f[st + 1 + 100 + 36 * p + 1] = 3;
		p += 1;
	}
	let fs = st + 321;
	let id = (-123i32).to_be_bytes();
	f[fs] = 0x3A;
	f[fs + 1] = id[0];
	f[fs + 2] = id[1];
	f[fs + 3] = id[2];
	f[fs + 4] = id[3];
	let mut k = 0;
	while k < 4 {
		f[fs + 5 + k] = keep[fs + 5 + k];
		k += 1;
	}
	let fe = fs + 9;
	f[fe] = 0x3C;
	f[fe + 1] = id[0];
	f[fe + 2] = id[1];
	f[fe + 3] = id[2];
	f[fe + 4] = id[3];
	let ge = fe + 5;
	f[ge] = 0x39;
	f[ge + 1] = 2;
	f[ge + 2] = 255;
	f[ge + 3] = 0x7d;
	let raw_len = (14 + 321 + 9 + 5 + 3) as u32;
	let rl = raw_len.to_be_bytes();
	f[11] = rl[0];
	f[12] = rl[1];
	f[13] = rl[2];
	f[14] = rl[3];
	(ge + 4, fe, ge)
}

// @verif property=C07,C06:thorough tier=quick mem=24 timeout=3000
// @encodes peppi::io::slippi::read (full path: event loop, one closed frame) on a finished one-frame file cut exactly at an event boundary: the stream ends where the Game End's event code is expected
// @symbolic 32 the frame's random seed
// @bound one port-free 3.0.0 file with one frame (Frame Start, Frame End, 2-byte Game End); one concrete cut position; full parse (skip_frames off); with the complete file as a control and a second cut (before the Frame End) in the same harness it was still in symbolic execution after 42 min
// @assume file skeleton and cut position concrete: a stream that ends where an event code is expected, in a file whose header declares a non-zero raw length, is a truncated file, not an in-progress one
// @stub alloc::fmt::format = returns an empty String
// @stub std::hash::RandomState::new = fixed keys
// @cbmc --max-field-sensitivity-array-size 1024
#[kani::proof]
#[kani::unwind(12)]
#[kani::stub(alloc::fmt::format, format_stub)]
#[kani::stub(std::hash::RandomState::new, random_state_stub)]
#[kani::stub(xxhash_rust::xxh3::Xxh3::update, update_check)]
fn c07_read_cut_at_event_boundary() {
	let mut f: [u8; 400] = kani::any();
	let (total, fe, ge) = build_one_frame(&mut f);
	assert!(fe < ge && ge + 4 == total);
	read_cut(&f, ge, false);
	kani::cover!(true, "reached");
}
