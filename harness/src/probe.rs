use crate::util::*;
use core::mem::{forget, replace, MaybeUninit};
use core::num::NonZeroU16;
use arrow2::array::MutableArray;
use peppi::frame::mutable::{Frame as MFrame, PortData as MPortData};
use peppi::frame::PortOccupancy;
use peppi::game::Port;
use peppi::io::slippi::de::{parse_event, ParseState};
use peppi::io::slippi::Version;

#[kani::proof]
#[kani::unwind(8)]
#[kani::stub(alloc::fmt::format, format_stub)]
#[kani::stub(std::hash::RandomState::new, random_state_stub)]
fn probe_port_pre() {
	let version = Version(1, 0, 0);
	let mut frames = MFrame::with_capacity(0, version, &[]);
	let mut store = [MPortData::with_capacity(0, version, PortOccupancy { port: Port::P2, follower: false })];
	let ports = unsafe { typed_ports(&mut store) };
	forget(replace(&mut frames.ports, ports));
	let mut sizes = [None; 256];
	sizes[0x37] = NonZeroU16::new(6 + 52);
	sizes[0x38] = NonZeroU16::new(6 + 31);
	let mut state = ParseState::verif_from_parts(sizes, 0, mk_start(version), frames, [0, 0, 0, 0]);
	let mut ev: [u8; 59] = kani::any();
	ev[0] = 0x37;
	let id = (-123i32).to_be_bytes();
	ev[1] = id[0];
	ev[2] = id[1];
	ev[3] = id[2];
	ev[4] = id[3];
	ev[5] = 1;
	ev[6] = 0;
	let r = parse_event(&ev[..], &mut state, None);
	match &r {
		Ok(c) => assert!(*c == 0x37),
		Err(_) => assert!(false),
	}
	let f = state.frames();
	assert!(f.id.len() == 1);
	assert!(f.ports[0].leader.pre.random_seed.values()[0] == u32::from_be_bytes([ev[7], ev[8], ev[9], ev[10]]));
	assert!(f.ports[0].leader.pre.raw_analog_x.is_none());
	assert!(state.bytes_read() == 59);
	kani::cover!(true, "reached");
	forget(r);
	forget(state);
	forget(store);
}
