//! C08 – unknown events are skipped without disturbing known data (step level);
//! C12 – consumed-byte accounting incl. a splitter block.
use crate::gen_c03::*;
use crate::steps::*;
use crate::util::*;
use arrow2::array::MutableArray;
use core::mem::forget;
use core::num::NonZeroU16;
use peppi::game::Game as _;
use peppi::io::slippi::de::{parse_event, ParseState};
use peppi::io::slippi::Version;

#[derive(Clone, Copy, PartialEq)]
enum Pos {
	BeforeAnyFrame,
	InsideOpenFrame,
	BetweenFrames,
	AfterGameEnd,
}

fn lens(state: &ParseState) -> (usize, usize, usize, usize, usize) {
	let f = state.frames();
	(
		f.id.len(),
		f.start.as_ref().map_or(0, |s| s.len()),
		f.end.as_ref().map_or(0, |s| s.len()),
		f.item.as_ref().map_or(0, |s| s.len()),
		f.item_offset.as_ref().map_or(0, |o| o.len_proxy()),
	)
}

fn unknown_noop(pos: Pos) {
	unknown_noop_pick(pos, true);
	unknown_noop_pick(pos, false);
}

fn unknown_noop_pick(pos: Pos, pick: bool) {
	let v = Version(3, 16, 0);
	let mut state = free_state(v);
	let a: i32 = kani::any();
	if pos != Pos::BeforeAnyFrame {
		let mut s0: [u8; 13] = kani::any();
		s0[0] = 0x3A;
		put_id(&mut s0, a);
		let r = parse_event(&s0[..], &mut state, None);
		assert!(r.is_ok());
		forget(r);
		let mut i0: [u8; 45] = kani::any();
		i0[0] = 0x3B;
		put_id(&mut i0, a);
		let r = parse_event(&i0[..], &mut state, None);
		assert!(r.is_ok());
		forget(r);
	}
	if pos == Pos::BetweenFrames || pos == Pos::AfterGameEnd {
		let mut e0: [u8; 9] = kani::any();
		e0[0] = 0x3C;
		put_id(&mut e0, a);
		let r = parse_event(&e0[..], &mut state, None);
		assert!(r.is_ok());
		forget(r);
	}
	if pos == Pos::AfterGameEnd {
		let ge: [u8; 7] = [0x39, 2, 255, 0, 1, 255, 255];
		let r = parse_event(&ge[..], &mut state, None);
		assert!(r.is_ok());
		forget(r);
	}
	let before = lens(&state);
	let bytes_before = state.bytes_read();
	let seed_before = if before.1 > 0 { state.frames().start.as_ref().map(|s| s.random_seed.values()[0]) } else { None };
	let item_before = if before.3 > 0 { state.frames().item.as_ref().map(|s| s.id.values()[0]) } else { None };
	let end_before = state.end().is_some();

	// the unknown event: one of the two codes the table declares, arbitrary payload
	// (the code is concrete per call: a symbolic code makes the declared size, and with it the
	// payload buffer's length, symbolic - 10 GB)
	let mut ev: [u8; 9] = kani::any();
	let (code, size) = if pick { (UNKNOWN_A, 1usize) } else { (UNKNOWN_B, 8usize) };
	ev[0] = code;
	let res = parse_event(&ev[..1 + size], &mut state, None);
	match &res {
		Ok(c) => assert!(*c == code),
		Err(_) => assert!(false),
	}
	// consumed exactly its declared size, touched nothing else
	assert!(state.bytes_read() == bytes_before + 1 + size);
	assert!(lens(&state) == before);
	let seed_after = if before.1 > 0 { state.frames().start.as_ref().map(|s| s.random_seed.values()[0]) } else { None };
	let item_after = if before.3 > 0 { state.frames().item.as_ref().map(|s| s.id.values()[0]) } else { None };
	assert!(seed_after == seed_before);
	assert!(item_after == item_before);
	assert!(state.end().is_some() == end_before);
	assert!(state.gecko_codes().is_none());
	assert!(state.metadata().is_none());
	forget(res);
	forget(state);
}

// @verif property=C08 tier=quick mem=12 timeout=1800
// @encodes peppi::io::slippi::de::parse_event (unknown-code path) after Frame Start + Item of an open frame
// @symbolic 530 frame id, payloads of the preceding events, unknown event's payload (both declared codes, one call each)
// @bound port-free 3.16 state; position: inside an open frame; one unknown event; declared sizes 1 and 8
// @stub alloc::fmt::format = returns an empty String
// @stub std::hash::RandomState::new = fixed keys
// @cbmc --max-field-sensitivity-array-size 512
#[kani::proof]
#[kani::unwind(10)]
#[kani::stub(alloc::fmt::format, format_stub)]
#[kani::stub(std::hash::RandomState::new, random_state_stub)]
fn c08_unknown_noop_inside_frame() {
	unknown_noop(Pos::InsideOpenFrame);
	kani::cover!(true, "reached");
}

// @verif property=C08 tier=quick mem=12 timeout=1800
// @encodes peppi::io::slippi::de::parse_event (unknown-code path) before any frame
// @symbolic 72 unknown events' payloads (both declared codes, one call each)
// @bound port-free 3.16 state; position: directly after Game Start
// @stub alloc::fmt::format = returns an empty String
// @stub std::hash::RandomState::new = fixed keys
// @cbmc --max-field-sensitivity-array-size 512
#[kani::proof]
#[kani::unwind(10)]
#[kani::stub(alloc::fmt::format, format_stub)]
#[kani::stub(std::hash::RandomState::new, random_state_stub)]
fn c08_unknown_noop_before_frames() {
	unknown_noop(Pos::BeforeAnyFrame);
	kani::cover!(true, "reached");
}

// @verif property=C08 tier=thorough mem=12 timeout=1800
// @encodes peppi::io::slippi::de::parse_event (unknown-code path) between two frames
// @symbolic 562 frame id, payloads, unknown event
// @bound port-free 3.16 state; position: after a closed frame
// @stub alloc::fmt::format = returns an empty String
// @stub std::hash::RandomState::new = fixed keys
// @cbmc --max-field-sensitivity-array-size 512
#[kani::proof]
#[kani::unwind(10)]
#[kani::stub(alloc::fmt::format, format_stub)]
#[kani::stub(std::hash::RandomState::new, random_state_stub)]
fn c08_unknown_noop_between_frames() {
	unknown_noop(Pos::BetweenFrames);
	kani::cover!(true, "reached");
}

// @verif property=C08 tier=thorough mem=12 timeout=1800
// @encodes peppi::io::slippi::de::parse_event (unknown-code path) after Game End
// @symbolic 562 frame id, payloads, unknown event
// @bound port-free 3.16 state; position: after Game End (Game End block concrete)
// @stub alloc::fmt::format = returns an empty String
// @stub std::hash::RandomState::new = fixed keys
// @cbmc --max-field-sensitivity-array-size 512
#[kani::proof]
#[kani::unwind(10)]
#[kani::stub(alloc::fmt::format, format_stub)]
#[kani::stub(std::hash::RandomState::new, random_state_stub)]
fn c08_unknown_noop_after_end() {
	unknown_noop(Pos::AfterGameEnd);
	kani::cover!(true, "reached");
}

// @verif property=C12,C01:thorough,C17:thorough tier=quick mem=12 timeout=1800
// @encodes peppi::io::slippi::de::parse_event + handle_splitter_event: one final 516-byte splitter block wrapping Gecko codes
// @symbolic 4096 the 512 data bytes
// @bound one splitter block (is_final = 1, wrapped code 0x3D); port-free 3.16 state
// @assume chunk size field concrete (300; other values: c06_nopanic_splitter_fields)
// @stub alloc::fmt::format = returns an empty String
// @stub std::hash::RandomState::new = fixed keys
// @cbmc --max-field-sensitivity-array-size 1024
#[kani::proof]
#[kani::unwind(10)]
#[kani::stub(alloc::fmt::format, format_stub)]
#[kani::stub(std::hash::RandomState::new, random_state_stub)]
fn c12_splitter_gecko_accounting() {
	let v = Version(3, 16, 0);
	let mut t = table_for(v);
	t[0x3D] = NonZeroU16::new(300);
	let frames = peppi::frame::mutable::Frame::with_capacity(0, v, &[]);
	let mut state = ParseState::verif_from_parts(t, 0, mk_start(v), frames, [0; 4]);
	let mut ev: [u8; 517] = kani::any();
	ev[0] = 0x10;
	// chunk size concrete (300): a symbolic one keeps the "> 512" error path alive
	ev[513] = 1;
	ev[514] = 44;
	let actual = 300u16;
	ev[515] = 0x3D;
	ev[516] = 1;
	let res = parse_event(&ev[..], &mut state, None);
	match &res {
		Ok(c) => assert!(*c == 0x3D),
		Err(_) => assert!(false),
	}
	// the whole block counts as consumed, and the blob keeps all 512 bytes incl. padding
	assert!(state.bytes_read() == 517);
	match state.gecko_codes() {
		Some(g) => {
			assert!(g.actual_size == actual as u32);
			assert!(g.bytes.len() == 512);
			let i: usize = kani::any();
			kani::assume(i < 512);
			assert!(g.bytes[i] == ev[1 + i]);
		}
		None => assert!(false),
	}
	assert!(state.frames().len() == 0);
	kani::cover!(true, "reached");
	forget(res);
	forget(state);
}

// @verif property=C12,C07:thorough tier=quick mem=16 timeout=2400
// @encodes peppi::io::slippi::de::parse_start (parse_payloads, parse_game_start, game_start) over a stream that answers every read in two pieces
// @symbolic 32 random seed of the Game Start block
// @bound port-free 0.1 stream: 3-entry payload table + 320-byte Game Start; every read of >= 2 bytes answered in two pieces, split in the middle (concrete schedule; the other two schedules: c12_frag_parse_start_edges)
// @assume the stream is concrete except the random seed
// @stub alloc::fmt::format = returns an empty String
// @stub std::hash::RandomState::new = fixed keys
// @cbmc --max-field-sensitivity-array-size 1024
#[kani::proof]
#[kani::unwind(10)]
#[kani::stub(alloc::fmt::format, format_stub)]
#[kani::stub(std::hash::RandomState::new, random_state_stub)]
fn c12_frag_parse_start() {
	frag_parse_start(Split::Half);
	kani::cover!(true, "reached");
}

// @verif property=C12,C07 tier=thorough mem=16 timeout=3600
// @encodes peppi::io::slippi::de::parse_start over a stream that answers every read in two pieces (one byte first; all but the last byte first)
// @symbolic 64 random seed of the Game Start block (two calls)
// @bound port-free 0.1 stream: 3-entry payload table + 320-byte Game Start; two concrete split schedules
// @assume the stream is concrete except the random seed
// @stub alloc::fmt::format = returns an empty String
// @stub std::hash::RandomState::new = fixed keys
// @cbmc --max-field-sensitivity-array-size 1024
#[kani::proof]
#[kani::unwind(10)]
#[kani::stub(alloc::fmt::format, format_stub)]
#[kani::stub(std::hash::RandomState::new, random_state_stub)]
fn c12_frag_parse_start_edges() {
	frag_parse_start(Split::First1);
	frag_parse_start(Split::AllButOne);
	kani::cover!(true, "reached");
}

// @verif property=C08 tier=quick mem=16 timeout=2400
// @encodes peppi::io::slippi::de::parse_start (parse_payloads, parse_game_start, game_start, MutableFrame::with_capacity) on a replay of a newer version whose known events are all declared longer than the newest known layout
// @symbolic 24 the three version bytes of the Game Start block (every version >= 3.16.0 incl. every other major)
// @bound port-free stream: 8-entry payload table (Game Start 320; Frame Pre/Post/Start/Item/End and Game End each 3 bytes longer than their 3.16 layout; splitter 516) + Game Start block
// @assume the rest of the stream is concrete; oracle: the stream is accepted, the declared sizes are kept, the version is reported as written
// @stub alloc::fmt::format = returns an empty String
// @stub std::hash::RandomState::new = fixed keys
// @cbmc --max-field-sensitivity-array-size 1024
#[kani::proof]
#[kani::unwind(12)]
#[kani::stub(alloc::fmt::format, format_stub)]
#[kani::stub(std::hash::RandomState::new, random_state_stub)]
fn c08_parse_start_newer_version_longer_payloads() {
	let newest = Version(3, 16, 0);
	let ver: [u8; 3] = kani::any();
	kani::assume(ver[0] > 3 || (ver[0] == 3 && ver[1] >= 16));
	let extra = 3usize;
	let sizes: [(u8, usize); 8] = [
		(0x36, 320),
		(0x37, 6 + spec_size_pre(newest) + extra),
		(0x38, 6 + spec_size_post(newest) + extra),
		(0x39, 6 + extra),
		(0x3A, 4 + spec_size_start(newest) + extra),
		(0x3B, 4 + spec_size_item(newest) + extra),
		(0x3C, 4 + spec_size_end(newest) + extra),
		(0x10, 516),
	];
	const N: usize = 2 + 3 * 8 + 1 + 320;
	let mut s: [u8; N] = [0u8; N];
	s[0] = 0x35;
	s[1] = 1 + 3 * 8;
	let mut k = 0;
	while k < 8 {
		s[2 + 3 * k] = sizes[k].0;
		s[2 + 3 * k + 1] = (sizes[k].1 >> 8) as u8;
		s[2 + 3 * k + 2] = (sizes[k].1 & 0xff) as u8;
		k += 1;
	}
	const B: usize = 2 + 3 * 8 + 1;
	s[B - 1] = 0x36;
	s[B] = ver[0];
	s[B + 1] = ver[1];
	s[B + 2] = ver[2];
	let mut p = 0;
	while p < 6 {
		s[B + 100 + 36 * p + 1] = 3;
		p += 1;
	}
	let mut r = &s[..];
	let res = peppi::io::slippi::de::parse_start(&mut r, None);
	match &res {
		Ok(state) => {
			assert!(state.bytes_read() == N);
			assert!(r.len() == 0);
			let v = state.start().slippi.version;
			assert!(v.0 == ver[0] && v.1 == ver[1] && v.2 == ver[2]);
			let mut k = 0;
			while k < 8 {
				assert!(state.verif_payload_size(sizes[k].0) == Some(sizes[k].1 as u16));
				k += 1;
			}
			assert!(state.frames().len() == 0);
		}
		// a newer replay with longer payloads is not an error, whatever its major version
		Err(_) => assert!(false),
	}
	kani::cover!(ver[0] == 4 && ver[1] == 0, "a 4.0.x replay");
	kani::cover!(ver[0] == 3 && ver[1] == 17, "a 3.17.x replay");
	kani::cover!(ver[0] == 255, "major 255");
	forget(res);
}

fn frag_parse_start(mode: Split) {
	// only the random seed (last four bytes of the block) is symbolic: the block's parsing is
	// C05's subject, and a fully symbolic block through the fragmenting reader costs > 25 min
	let seed: [u8; 4] = kani::any();
	let mut s: [u8; 332] = [0u8; 332];
	s[12 + 316] = seed[0];
	s[12 + 317] = seed[1];
	s[12 + 318] = seed[2];
	s[12 + 319] = seed[3];
	s[0] = 0x35;
	s[1] = 10;
	s[2] = 0x36;
	s[3] = 1;
	s[4] = 0x40;
	s[5] = 0x39;
	s[6] = 0;
	s[7] = 1;
	s[8] = 0x40;
	s[9] = 0;
	s[10] = 1;
	s[11] = 0x36;
	s[12] = 0;
	s[13] = 1;
	s[14] = 0;
	let mut p = 0;
	while p < 6 {
		s[12 + 100 + 36 * p + 1] = 3;
		p += 1;
	}
	let mut frag = Frag2::with_mode(&s, mode);
	let opts = peppi::io::slippi::de::Opts { skip_frames: true, compute_hash: false, debug: None };
	let res = peppi::io::slippi::de::parse_start(&mut frag, Some(&opts));
	match &res {
		Ok(state) => {
			// the block arrived complete although no single read delivered it whole
			assert!(state.bytes_read() == 332);
			assert!(frag.handed_out == 332);
			assert!(state.start().bytes.0.len() == 320);
			let i: usize = kani::any();
			kani::assume(i < 320);
			assert!(state.start().bytes.0[i] == s[12 + i]);
			assert!(state.start().random_seed == u32::from_be_bytes([s[12 + 316], s[12 + 317], s[12 + 318], s[12 + 319]]));
			let pi = state.verif_port_indexes();
			assert!(pi[0] == 0 && pi[1] == 0 && pi[2] == 0 && pi[3] == 0);
		}
		Err(_) => assert!(false),
	}
	forget(res);
}

// @verif property=C08,C12:thorough tier=quick mem=24 timeout=2400
// @encodes peppi::io::slippi::de::parse_event + handle_splitter_event: an unknown event between the two chunks of a split Gecko-code message
// @symbolic 8300 both 512-byte chunks, their size fields, the unknown event's payload
// @bound two splitter blocks (first not final, second final, wrapped code 0x3D) with one unknown 8-byte event in between; port-free 3.16 state
// @assume chunk size fields concrete (512 and 88)
// @stub alloc::fmt::format = returns an empty String
// @stub std::hash::RandomState::new = fixed keys
// @cbmc --max-field-sensitivity-array-size 1100
#[kani::proof]
#[kani::unwind(10)]
#[kani::stub(alloc::fmt::format, format_stub)]
#[kani::stub(std::hash::RandomState::new, random_state_stub)]
fn c08_unknown_between_splitter_chunks() {
	let v = Version(3, 16, 0);
	let mut t = table_for(v);
	t[0x3D] = NonZeroU16::new(600);
	let frames = peppi::frame::mutable::Frame::with_capacity(0, v, &[]);
	let mut state = ParseState::verif_from_parts(t, 0, mk_start(v), frames, [0; 4]);
	let mut c1: [u8; 517] = kani::any();
	c1[0] = 0x10;
	c1[513] = 2;
	c1[514] = 0; // first chunk completely full (512)
	let a1 = 512u16;
	c1[515] = 0x3D;
	c1[516] = 0;
	let r1 = parse_event(&c1[..], &mut state, None);
	match &r1 {
		Ok(c) => assert!(*c == 0x10),
		Err(_) => assert!(false),
	}
	// consumed bytes are counted chunk by chunk, not only when the message is complete
	assert!(state.bytes_read() == 517);
	assert!(state.gecko_codes().is_none());
	// unknown event in between
	let mut u: [u8; 9] = kani::any();
	u[0] = UNKNOWN_B;
	let ru = parse_event(&u[..], &mut state, None);
	match &ru {
		Ok(c) => assert!(*c == UNKNOWN_B),
		Err(_) => assert!(false),
	}
	assert!(state.bytes_read() == 517 + 9);
	let mut c2: [u8; 517] = kani::any();
	c2[0] = 0x10;
	c2[513] = 0;
	c2[514] = 88;
	let a2 = 88u16;
	c2[515] = 0x3D;
	c2[516] = 1;
	let r2 = parse_event(&c2[..], &mut state, None);
	match &r2 {
		Ok(c) => assert!(*c == 0x3D),
		Err(_) => assert!(false),
	}
	assert!(state.bytes_read() == 517 + 9 + 517);
	// the reassembled message is what it would be without the unknown event
	match state.gecko_codes() {
		Some(g) => {
			assert!(g.actual_size == a1 as u32 + a2 as u32);
			assert!(g.bytes.len() == 1024);
			let i: usize = kani::any();
			kani::assume(i < 512);
			assert!(g.bytes[i] == c1[1 + i]);
			assert!(g.bytes[512 + i] == c2[1 + i]);
		}
		None => assert!(false),
	}
	kani::cover!(true, "reached");
	forget(r1);
	forget(ru);
	forget(r2);
	forget(state);
}
