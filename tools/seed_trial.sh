#!/bin/bash
# seed_trial.sh <seed-name> <lane> <property> [extra check.py args...]
# Applies /verif/seeded/<seed>/patch.diff to a scratch worktree of /repo's HEAD, runs the
# property's check against that worktree (never against /repo), records the outcome in
# /verif/seeded/<seed>/trial_<property>.log and removes the worktree.
set -u
seed=$1; lane=$2; prop=$3; shift 3
wt=/tmp/trial/$seed
out=/verif/seeded/$seed
mkdir -p /tmp/trial
git -C /repo worktree remove --force $wt 2>/dev/null
git -C /repo worktree add -q --detach $wt HEAD || exit 2
if ! git -C $wt apply $out/patch.diff 2>/tmp/trial/$seed.apply.err; then
  if ! git -C $wt apply --3way $out/patch.diff 2>>/tmp/trial/$seed.apply.err; then
    echo "PATCH DOES NOT APPLY to /repo HEAD: $seed" | tee $out/trial_$prop.log
    cat /tmp/trial/$seed.apply.err
    git -C /repo worktree remove --force $wt
    exit 3
  fi
fi
( cd /verif && VERIF_REPO=$wt VERIF_LOGS=/tmp/trial/logs-$seed VERIF_REPLAYS=$out/replays VERIF_SLOT_PREFIX=$lane VERIF_JOBS=${VERIF_JOBS:-5} VERIF_MEM_GB=${VERIF_MEM_GB:-26} \
  python3 tools/check.py $prop --no-evidence "$@" ) > $out/trial_$prop.log 2>&1
rc=$?
echo "exit code $rc" >> $out/trial_$prop.log
git -C /repo worktree remove --force $wt
rm -rf /tmp/trial/logs-$seed/crate /tmp/trial/logs-$seed/replay_crate*
grep -E "VIOLATION|INCONCLUSIVE|^done|exit code" $out/trial_$prop.log
