#!/usr/bin/env python3
"""Driver for the Kani/CBMC checks of /verif (see DESIGN.md §3).

usage: check.py <property-id> [--tier quick|thorough] [--only <harness-substring>]
       check.py --replay <path>
       check.py --setup
       check.py --list

Exit codes: 0 = every harness of the tier discharged (known findings are printed and do
not count); 1 = a violation reproduced natively (a `VIOLATION property=.. replay=..` line
is printed); 2 = inconclusive (timeout, out of memory, vacuous harness, solver/compiler
error, counterexample that does not reproduce natively).  2 is never reported as success.
"""
import argparse
import glob
import json
import os
import re
import shutil
import subprocess
import sys
import threading
import time

VERIF = os.path.dirname(os.path.dirname(os.path.abspath(__file__)))
HARNESS = os.path.join(VERIF, "harness")
TARGET = os.path.join(VERIF, ".kani-target")
LOGS = os.environ.get("VERIF_LOGS", os.path.join(VERIF, "logs"))
EVIDENCE = os.path.join(VERIF, "evidence")
REPLAYS = os.environ.get("VERIF_REPLAYS", os.path.join(VERIF, "replays"))
KNOWN = os.path.join(VERIF, "known_findings.txt")
REPO = os.environ.get("VERIF_REPO", "/repo")  # a scratch worktree may be checked instead (seeded-change trials)

MEM_BUDGET_GB = int(os.environ.get("VERIF_MEM_GB", "80"))  # sum of per-harness ulimit caps admitted at once (caps are ~2x the measured peak RSS; 62 GB RAM)
MAX_JOBS = int(os.environ.get("VERIF_JOBS", "10"))
SLOT_PREFIX = os.environ.get("VERIF_SLOT_PREFIX", "s")  # separate target dirs for side-by-side runs

# ----------------------------------------------------------------------------
# harness discovery: every #[kani::proof] in harness/src/*.rs is preceded by a block
#   // @verif property=C03,C08:thorough tier=quick mem=12 timeout=900
#   // @encodes <real peppi functions executed symbolically>
#   // @symbolic <bits> <what is symbolic>
#   // @bound <bound, and what lies outside it>
#   // @assume <assumption / cut>          (repeatable)
#   // @stub <stubbed function> = <model>  (repeatable)
#   // @cbmc <extra CBMC arguments>
#   // @replay twin=<native test fn>       (optional)
# ----------------------------------------------------------------------------

TAG_RE = re.compile(r"^\s*//\s*@(\w+)\s*(.*)$")
FN_RE = re.compile(r"^\s*(?:pub\s+)?fn\s+(\w+)\s*\(")


def discover():
    out = []
    for path in sorted(glob.glob(os.path.join(HARNESS, "src", "*.rs"))):
        mod = os.path.splitext(os.path.basename(path))[0]
        if mod == "lib":
            continue
        cur = None
        with open(path) as f:
            for line in f:
                m = TAG_RE.match(line)
                if m:
                    tag, val = m.group(1), m.group(2).strip()
                    if tag == "verif":
                        cur = {"props": {}, "tier": "quick", "mem": 12, "timeout": 900,
                               "encodes": "", "symbolic": "", "bits": 0, "bound": "",
                               "assume": [], "stub": [], "cbmc": [], "twin": None,
                               "file": path, "mod": mod}
                        for kv in val.split():
                            k, _, v = kv.partition("=")
                            if k == "property":
                                cur["_props_raw"] = v
                            elif k == "tier":
                                cur["tier"] = v
                            elif k == "mem":
                                cur["mem"] = int(v)
                            elif k == "timeout":
                                cur["timeout"] = int(v)
                        for p in cur.pop("_props_raw").split(","):
                            pid, _, t = p.partition(":")
                            cur["props"][pid] = t or cur["tier"]
                    elif cur is not None:
                        if tag == "encodes":
                            cur["encodes"] = (cur["encodes"] + " " + val).strip()
                        elif tag == "symbolic":
                            mm = re.match(r"(\d+)\s*(.*)", val)
                            if mm:
                                cur["bits"] += int(mm.group(1))
                                val = mm.group(2)
                            cur["symbolic"] = (cur["symbolic"] + "; " + val).strip("; ")
                        elif tag == "bound":
                            cur["bound"] = (cur["bound"] + " " + val).strip()
                        elif tag == "assume":
                            cur["assume"].append(val)
                        elif tag == "stub":
                            cur["stub"].append(val)
                        elif tag == "cbmc":
                            cur["cbmc"] += val.split()
                        elif tag == "replay":
                            mm = re.match(r"twin=(\w+)", val)
                            if mm:
                                cur["twin"] = mm.group(1)
                    continue
                m = FN_RE.match(line)
                if m and cur is not None:
                    cur["name"] = m.group(1)
                    cur["qual"] = "%s::%s" % (mod, m.group(1))
                    out.append(cur)
                    cur = None
    return out


def select(harnesses, prop, tier):
    sel = []
    for h in harnesses:
        t = h["props"].get(prop)
        if t is None:
            continue
        if tier == "thorough" or t == "quick":
            sel.append(h)
    return sel


# ----------------------------------------------------------------------------
# preparation
# ----------------------------------------------------------------------------

def sh(cmd, **kw):
    return subprocess.run(cmd, shell=isinstance(cmd, str), **kw)


CRATE = HARNESS  # directory the jobs compile from (a per-property snapshot of harness/)


def snapshot(tag):
    """Copy harness/ to logs/crate/<tag>/ so that a running check is not disturbed by later
    edits of /verif/harness (and two checks can run side by side)."""
    global CRATE
    d = os.path.join(LOGS, "crate", tag + ("" if REPO == "/repo" else "-" + os.path.basename(REPO.rstrip("/"))))
    os.makedirs(os.path.join(d, "src"), exist_ok=True)
    for name in ("Cargo.toml", "Cargo.lock"):
        shutil.copyfile(os.path.join(HARNESS, name), os.path.join(d, name))
    if REPO != "/repo":
        t = open(os.path.join(d, "Cargo.toml")).read().replace('path = "/repo"', 'path = "%s"' % REPO)
        with open(os.path.join(d, "Cargo.toml"), "w") as o:
            o.write(t)
    keep = set()
    for f in glob.glob(os.path.join(HARNESS, "src", "*.rs")):
        dst = os.path.join(d, "src", os.path.basename(f))
        keep.add(dst)
        new = open(f).read()
        if not os.path.exists(dst) or open(dst).read() != new:
            with open(dst, "w") as o:
                o.write(new)
    for f in glob.glob(os.path.join(d, "src", "*.rs")):
        if f not in keep:
            os.remove(f)
    os.utime(os.path.join(d, "src", "lib.rs"), None)
    CRATE = d


def prepare():
    os.makedirs(LOGS, exist_ok=True)
    os.makedirs(TARGET, exist_ok=True)
    lock = os.path.join(REPO, "Cargo.lock")
    if not os.path.exists(lock):
        lock = "/repo/Cargo.lock"  # scratch worktrees do not carry the (untracked) lock file
    shutil.copyfile(lock, os.path.join(HARNESS, "Cargo.lock"))
    gen = os.path.join(VERIF, "tools", "gen_harness.py")
    if os.path.exists(gen):
        r = sh([sys.executable, gen], stdout=subprocess.PIPE, stderr=subprocess.STDOUT, text=True)
        if r.returncode != 0:
            print(r.stdout)
            print("ERROR: harness generation failed")
            sys.exit(2)
    # force the harness crate (and with it the reachable peppi code) to be re-encoded
    os.utime(os.path.join(HARNESS, "src", "lib.rs"), None)


def repo_state():
    try:
        head = subprocess.check_output(["git", "-C", REPO, "rev-parse", "--short", "HEAD"], text=True).strip()
        dirty = subprocess.check_output(["git", "-C", REPO, "status", "--porcelain", "--untracked-files=no"], text=True).strip()
        return head + ("+dirty" if dirty else "")
    except Exception:
        return "unknown"


def env():
    e = dict(os.environ)
    e["CARGO_NET_OFFLINE"] = "true"
    e.pop("CARGO_TARGET_DIR", None)
    e.pop("RUSTFLAGS", None)
    return e


def kani_cmd(h, slot, json_out, playback=False, only_property=None):
    args = ["cargo", "kani", "--target-dir", os.path.join(TARGET, slot),
            "--harness", h["qual"], "--exact", "-Z", "stubbing", "-Z", "unstable-options"]
    if playback:
        # regular output (needed by concrete playback); without the per-assertion reachability
        # instrumentation, whose "failures" would each make CBMC emit a full JSON trace
        args += ["-Z", "concrete-playback", "--concrete-playback=print", "--no-assertion-reach-checks"]
    else:
        # CBMC's plain output, parsed below: the JSON UI that Kani's regular mode uses emits a
        # trace per reachable assertion (1 GB, 5x the run time for a 2000-property harness)
        # no per-assertion reachability instrumentation either: every reachable assertion would be
        # one more "failing" property and one more SAT iteration; vacuity is guarded by the
        # explicit kani::cover! witnesses of each harness instead
        args += ["--output-format", "old", "--no-assertion-reach-checks"]
    extra = list(h["cbmc"] or [])
    if only_property:
        # one property = one SAT call and one JSON trace: three failing assertions of a
        # 21 M-variable harness made CBMC run out of memory while writing their traces
        extra += ["--property", only_property]
    if extra:
        args += ["--cbmc-args"] + extra
    return args


# ----------------------------------------------------------------------------
# running one harness
# ----------------------------------------------------------------------------

class Job:
    def __init__(self, h, prop):
        self.h = h
        self.prop = prop
        self.status = "pending"   # pass | fail | vacuous | unwind | timeout | oom | error
        self.checks = []
        self.stats = {}
        self.stubs_seen = []
        self.wall = 0.0
        self.log = os.path.join(LOGS, prop, h["name"] + ".log")
        self.json = os.path.join(LOGS, prop, h["name"] + ".json")
        self.fail_checks = []
        self.cover_bad = []
        self.rss_note = ""


def run_job(job, slot):
    h = job.h
    os.makedirs(os.path.dirname(job.log), exist_ok=True)
    if os.path.exists(job.log):
        os.remove(job.log)
    cmd = kani_cmd(h, slot, job.json)
    shell = "ulimit -s unlimited 2>/dev/null; ulimit -v %d; exec /usr/bin/time -f MAXRSS_KB=%%M timeout -k 15 %d %s" % (
        h["mem"] * 1024 * 1024, h["timeout"], " ".join(map(shquote, cmd)))
    t0 = time.time()
    with open(job.log, "w") as lf:
        lf.write("# %s\n" % shell)
        lf.flush()
        r = subprocess.run(["bash", "-c", shell], cwd=CRATE, env=env(), stdout=lf, stderr=subprocess.STDOUT)
    job.wall = time.time() - t0
    job.rc = r.returncode
    classify(job)


def shquote(s):
    if re.match(r"^[\w@%+=:,./-]+$", s):
        return s
    return "'" + s.replace("'", "'\\''") + "'"


PROP_RE = re.compile(r"^\[(.+)\.([a-z_A-Z-]+)\.(\d+)\] line (\d+) (.*)$")
HEAD_RE = re.compile(r"^(\S+) function (.+)$")
STATUS_RE = re.compile(r"^(.*): (SUCCESS|FAILURE|UNKNOWN|ERROR)$", re.S)
ID_RE = re.compile(r"^\[?KANI_CHECK_ID_[^\s\]]+\]?\s*")


def parse_plain(log):
    """CBMC plain-text '** Results:' section -> list of checks."""
    checks = []
    i = log.find("** Results:")
    if i < 0:
        return checks
    cur_file = ""
    pend = None
    for line in log[i:].splitlines()[1:]:
        if line.startswith("** ") and "failed" in line:
            break
        if pend is not None:
            pend["raw"] += "\n" + line
            m = STATUS_RE.match(pend["raw"])
            if m:
                pend["description"], pend["status"] = m.group(1), m.group(2)
                checks.append(pend)
                pend = None
            continue
        m = PROP_RE.match(line)
        if m:
            c = {"function": m.group(1), "category": m.group(2), "n": int(m.group(3)),
                 "location": {"file": cur_file, "line": m.group(4)}, "raw": m.group(5)}
            ms = STATUS_RE.match(c["raw"])
            if ms:
                c["description"], c["status"] = ms.group(1), ms.group(2)
                checks.append(c)
            else:
                pend = c
            continue
        m = HEAD_RE.match(line)
        if m:
            cur_file = m.group(1)
    for c in checks:
        c["description"] = ID_RE.sub("", c["description"]).strip()
        c.pop("raw", None)
    return checks


def classify(job):
    log = open(job.log, errors="replace").read()
    job.stubs_seen = sorted(set(re.findall(r"[Ss]tub\w*[: ]+`?([\w:<>]+)`?", log)))[:8]
    m = re.search(r"MAXRSS_KB=(\d+)", log)
    job.maxrss_gb = round(int(m.group(1)) / 1048576.0, 2) if m else None
    if job.rc in (124, 137):
        job.status = "timeout"
        return
    oom = re.search(r"out of memory|std::bad_alloc|Cannot allocate memory|memory allocation of \d+ bytes failed", log, re.I)
    st = {}
    for k, pat in (("runtime_symex_s", r"Runtime Symex: ([\d.e+-]+)s"),
                   ("size_program_expression", r"size of program expression: (\d+) steps"),
                   ("runtime_convert_ssa_s", r"Runtime Convert SSA: ([\d.e+-]+)s")):
        mm = re.search(pat, log)
        if mm:
            st[k] = float(mm.group(1)) if "." in mm.group(1) or "e" in mm.group(1) else int(mm.group(1))
    mm = re.search(r"Generated (\d+) VCC\(s\), (\d+) remaining", log)
    if mm:
        st["vccs_generated"], st["vccs_remaining"] = int(mm.group(1)), int(mm.group(2))
    vc = re.findall(r"(\d+) variables, (\d+) clauses", log)
    if vc:
        st["sat_variables"], st["sat_clauses"] = int(vc[-1][0]), int(vc[-1][1])
    st["runtime_decision_procedure_s"] = round(sum(float(x) for x in re.findall(r"Runtime decision procedure: ([\d.e+-]+)s", log)), 3)
    st["solver_iterations"] = len(re.findall(r"Runtime decision procedure:", log))
    job.stats = st
    job.checks = parse_plain(log)
    done = re.search(r"^VERIFICATION (SUCCESSFUL|FAILED)", log, re.M)
    if not job.checks or not done:
        job.status = "oom" if oom else "error"
        return
    fails, covers_bad, unwind, undet = [], [], [], []
    reach = 0
    for c in job.checks:
        st_, cat = c["status"], c["category"]
        if cat == "reachability_check":
            reach += 1
            continue
        if cat == "cover":
            # a cover is encoded as assert(!cond): FAILURE means the witness is satisfiable
            if st_ != "FAILURE":
                covers_bad.append(c)
        elif st_ == "FAILURE":
            if cat == "unwind" or "unwinding assertion" in c["description"]:
                unwind.append(c)
            else:
                fails.append(c)
        elif st_ != "SUCCESS":
            undet.append(c)
    job.checks = [c for c in job.checks if c["category"] != "reachability_check"]
    job.reach_checks = reach
    job.fail_checks = fails
    job.cover_bad = covers_bad
    if unwind:
        job.status = "unwind"
    elif fails:
        job.status = "fail"
    elif undet:
        job.status = "oom" if oom else "error"
    elif covers_bad:
        job.status = "vacuous"
    else:
        job.status = "pass"


# ----------------------------------------------------------------------------
# scheduler
# ----------------------------------------------------------------------------

def run_all(jobs, seed):
    # largest memory first; VERIF_SEED only permutes ties (nothing is random in the checks)
    order = sorted(range(len(jobs)), key=lambda i: (-jobs[i].h["mem"], -jobs[i].h["timeout"], (i * 7919 + seed) % 104729))
    pending = [jobs[i] for i in order]
    running = {}
    free_slots = ["%s%d" % (SLOT_PREFIX, i) for i in range(MAX_JOBS)]
    lock = threading.Lock()
    done_evt = threading.Event()

    def worker(job, slot):
        try:
            run_job(job, slot)
        except Exception as e:  # pragma: no cover
            job.status = "error"
            job.err = repr(e)
        with lock:
            running.pop(job, None)
            free_slots.append(slot)
            free_slots.sort()
        print("  [%s] %-44s %6.0fs  %s" % (job.status.upper(), job.h["qual"], job.wall, summarize(job)), flush=True)
        done_evt.set()

    while pending or running:
        with lock:
            used = sum(j.h["mem"] for j in running)
            started = False
            for job in list(pending):
                if free_slots and (used + job.h["mem"] <= MEM_BUDGET_GB or not running):
                    slot = free_slots.pop(0)
                    pending.remove(job)
                    running[job] = slot
                    used += job.h["mem"]
                    threading.Thread(target=worker, args=(job, slot), daemon=True).start()
                    started = True
        if not started:
            done_evt.wait(timeout=2.0)
            done_evt.clear()


def summarize(job):
    s = job.stats
    n = len(job.checks)
    return "checks=%d symex=%.0fs solver=%.0fs rss=%sG" % (n, s.get("runtime_symex_s", 0) or 0, s.get("runtime_decision_procedure_s", 0) or 0, getattr(job, "maxrss_gb", "?"))


# ----------------------------------------------------------------------------
# known findings
# ----------------------------------------------------------------------------

def load_known():
    findings = []
    if os.path.exists(KNOWN):
        for line in open(KNOWN):
            line = line.strip()
            if line.startswith("finding:"):
                m = re.match(r"finding:\s+property=(\S+)\s+harness=(\S+)\s+check=\"([^\"]*)\"\s+(.*)", line)
                if m:
                    findings.append({"prop": m.group(1), "harness": m.group(2), "check": m.group(3), "what": m.group(4)})
    return findings


def is_known(job, c, known):
    for k in known:
        if k["prop"] == job.prop and k["harness"] == job.h["name"] and k["check"] in (c.get("description", "") + " @" + c.get("function", "")):
            return k
    return None


# ----------------------------------------------------------------------------
# replay: solver assignment -> native test against the real build
# ----------------------------------------------------------------------------

def replay_scratch(tag=""):
    d = os.path.join(LOGS, "replay_crate" + tag)
    if os.path.exists(d):
        shutil.rmtree(d)
    shutil.copytree(CRATE, d, ignore=shutil.ignore_patterns("target"))
    return d


def extract_playback_test(log_text):
    """All generated tests that belong to a failed check (tests for satisfied covers are skipped)."""
    tests = []
    for m in re.finditer(r"```\s*\n(.*?)```", log_text, re.S):
        block = m.group(1)
        if "kani_concrete_playback" not in block:
            continue
        kind = re.search(r"Check for `(\w+)`", block)
        if kind and kind.group(1) == "cover":
            continue
        # Kani copies the check description into a `///` comment; a description that rustc's
        # stringify! wrapped over two lines leaves the second line outside the comment
        head, sep, rest = block.partition("#[test]")
        if sep:
            head = "\n".join(l if l.lstrip().startswith("///") or not l.strip() else "/// " + l.strip() for l in head.split("\n"))
            block = head + sep + rest
        tests.append(block)
    return "\n".join(tests) if tests else None


def run_native_test(crate_dir, modname, test_src, log_path, lane=0):
    """Append the generated #[test] to the harness's module in a scratch copy and run it
    natively with `cargo kani playback` (dev profile, then release)."""
    modfile = os.path.join(crate_dir, "src", modname + ".rs")
    with open(modfile, "a") as f:
        f.write("\n" + test_src + "\n")
    names = re.findall(r"fn (kani_concrete_playback_\w+)", test_src)
    # common prefix = cargo test filter that selects every generated test of this harness
    tname = os.path.commonprefix(names) if names else "kani_concrete_playback"
    results = {}
    for prof in ("dev", "release"):
        cmd = ["cargo", "kani", "playback", "-Z", "concrete-playback", "--", tname]
        e = env()
        e["CARGO_TARGET_DIR"] = os.path.join(TARGET, "playback-" + prof + ("" if SLOT_PREFIX == "s" else "-" + SLOT_PREFIX) + ("" if lane == 0 else "-%d" % lane))
        e["RUST_BACKTRACE"] = "0"
        if prof == "release":
            # `cargo kani playback` has no --release: give the test profile release settings
            e["CARGO_PROFILE_TEST_OPT_LEVEL"] = "3"
            e["CARGO_PROFILE_TEST_DEBUG_ASSERTIONS"] = "false"
            e["CARGO_PROFILE_TEST_OVERFLOW_CHECKS"] = "false"
            e["CARGO_PROFILE_DEV_OPT_LEVEL"] = "3"
            e["CARGO_PROFILE_DEV_DEBUG_ASSERTIONS"] = "false"
            e["CARGO_PROFILE_DEV_OVERFLOW_CHECKS"] = "false"
        with open(log_path, "a") as lf:
            lf.write("\n# native replay (%s): %s\n" % (prof, " ".join(cmd)))
            lf.flush()
            r = subprocess.run(cmd, cwd=crate_dir, env=e, stdout=lf, stderr=subprocess.STDOUT, timeout=3600)
        txt = open(log_path, errors="replace").read()
        tail = txt[txt.rfind("# native replay (%s)" % prof):]
        results[prof + "_output"] = tail[-20000:]
        if re.search(r"test result: FAILED|panicked at|test .* FAILED", tail):
            results[prof] = "fails"
        elif re.search(r"test result: ok\. [1-9]\d* passed", tail):
            results[prof] = "passes"
        else:
            results[prof] = "error"
    return tname, results


def replay_job(job, lane=0):
    """Returns (path, reproduced: bool|None)."""
    h = job.h
    os.makedirs(os.path.join(REPLAYS, job.prop), exist_ok=True)
    path = os.path.join(REPLAYS, job.prop, h["name"] + ".rs")
    rlog = os.path.join(LOGS, job.prop, h["name"] + ".replay.log")
    crate = replay_scratch("_%d" % lane)
    first = next((c for c in job.fail_checks if c.get("category") != "cover"), None)
    prop_id = "%s.%s.%d" % (first["function"], first["category"], first["n"]) if first else None
    test = None
    for only in ([prop_id, None] if prop_id else [None]):
        test = run_playback(h, lane, crate, rlog, only)
        if test:
            break
    if not test:
        # the playback run could not hand back the solver's assignment (e.g. CBMC ran out of
        # memory while writing the JSON trace): inconclusive, never a pass
        shutil.rmtree(crate, ignore_errors=True)
        return path, None
    return finish_replay(job, h, path, rlog, crate, lane, test)


def run_playback(h, lane, crate, rlog, only_property):
    cmd = kani_cmd(h, "%s%d" % (SLOT_PREFIX, lane), None, playback=True, only_property=only_property)
    # the playback run uses Kani's regular mode: CBMC builds, and kani-driver keeps, the whole
    # JSON trace in memory (a 7 GB plain run of 21 M variables failed under a 36 GB cap and
    # succeeded under 48), so it gets four times the harness's cap (at least 48 GB of address
    # space) and twice the time; replays run one at a time
    shell = "ulimit -s unlimited 2>/dev/null; ulimit -v %d; exec timeout -k 15 %d %s" % (
        max(h["mem"] * 4, 48) * 1024 * 1024, h["timeout"] * 2, " ".join(map(shquote, cmd)))
    with open(rlog, "w") as lf:
        lf.write("# playback%s\n" % (" restricted to property " + only_property if only_property else ""))
        lf.flush()
        subprocess.run(["bash", "-c", shell], cwd=crate, env=env(), stdout=lf, stderr=subprocess.STDOUT)
    return extract_playback_test(open(rlog, errors="replace").read())


def finish_replay(job, h, path, rlog, crate, lane, test):
    if h["twin"]:
        # the harness's oracle lives in a stub, which a native run does not have: feed the same
        # solver-chosen values to the hand-written native twin (same kani::any() sequence, real code)
        test = re.sub(r",\s*%s\);" % re.escape(h["name"]), ", %s);" % h["twin"], test)
    with open(path, "w") as f:
        f.write("// counterexample for harness %s (property %s), produced by CBMC from /repo at %s\n" % (h["qual"], job.prop, repo_state()))
        f.write("// failing checks: %s\n" % "; ".join(sorted({c.get("description", "") for c in job.fail_checks})))
        f.write("// module: %s\n" % h["mod"])
        f.write(test)
    tname, res = run_native_test(crate, h["mod"], test, rlog, lane)
    shutil.rmtree(crate, ignore_errors=True)
    job.replay_result = {k: v for k, v in res.items() if not k.endswith("_output")}
    if "fails" in res.values():
        if h["twin"]:
            return path, True
        # the native failure has to be the failure CBMC reported, not some other panic
        out = res.get("dev_output", "") + res.get("release_output", "")
        for c in job.fail_checks:
            d = c.get("description", "")
            loc = c.get("location", {})
            where = "%s:%s:" % (os.path.basename(loc.get("file", "?")), loc.get("line", "?"))
            # same assertion text, or a panic at the same source line (assert_eq!, unwrap and
            # index panics word their messages differently from CBMC's check descriptions)
            if c.get("category") != "assertion" or (d and d[:60] in out) or where in out:
                return path, True
            # unwrap()/expect()/index panics with a message formatted at run time: CBMC reports
            # them inside core with a placeholder text; natively they surface as a panic located
            # in the code under test
            if "placeholder message" in d and re.search(r"panicked at %s/src/" % re.escape(REPO.rstrip("/")), out):
                return path, True
        return path, False
    if all(v == "passes" for k, v in res.items() if not k.endswith("_output")):
        return path, False
    return path, None


def replay_file(path):
    txt = open(path).read()
    m = re.search(r"// module: (\w+)", txt)
    if not m:
        print("not a replay file produced by this driver: %s" % path)
        return 2
    prepare()
    snapshot("replay")
    crate = replay_scratch()
    i = txt.find("/// Test generated")
    test = txt[i if i >= 0 else txt.find("#[test]"):]
    rlog = os.path.join(LOGS, "replay_cmd.log")
    open(rlog, "w").close()
    tname, res = run_native_test(crate, m.group(1), test, rlog)
    shutil.rmtree(crate, ignore_errors=True)
    res = {k: v for k, v in res.items() if not k.endswith("_output")}
    print("replay %s: %s" % (tname, res))
    print(open(rlog, errors="replace").read()[-3000:])
    if "fails" in res.values():
        print("REPRODUCED (the stored counterexample still fails against the current tree)")
        return 1
    if all(v == "passes" for v in res.values()):
        print("not reproduced (passes against the current tree)")
        return 0
    return 2


# ----------------------------------------------------------------------------
# evidence
# ----------------------------------------------------------------------------

def write_evidence(prop, tier, seed, jobs, wall, violations, known_hits, extra_assumptions):
    evaluations = sum(len(j.checks) for j in jobs)
    nontrivial = sum(1 for j in jobs if j.status == "pass" and j.h["bits"] > 0 and not j.cover_bad)
    samples = []
    assumptions = set(extra_assumptions)
    for j in jobs:
        h = j.h
        st = j.stats
        covers = [c.get("description") for c in j.checks if c.get("category") == "cover" and c.get("status") == "FAILURE"]
        samples.append({
            "harness": h["qual"],
            "verdict": j.status,
            "peppi_functions_encoded": h["encodes"],
            "symbolic_inputs": h["symbolic"],
            "symbolic_bits": h["bits"],
            "bound": h["bound"],
            "assumptions": h["assume"],
            "stubs": h["stub"],
            "stubs_confirmed_by_kani": j.stubs_seen,
            "cbmc_args": h["cbmc"],
            "cbmc_properties_decided": len(j.checks),
            "assertions": sum(1 for c in j.checks if c.get("category") == "assertion"),
            "reachability_witnesses_satisfied": covers,
            "vccs_generated": st.get("vccs_generated"),
            "vccs_remaining": st.get("vccs_remaining"),
            "program_steps": st.get("size_program_expression"),
            "sat_variables": st.get("sat_variables"),
            "sat_clauses": st.get("sat_clauses"),
            "solver_iterations": st.get("solver_iterations"),
            "symex_s": st.get("runtime_symex_s"),
            "solver_s": st.get("runtime_decision_procedure_s"),
            "wall_s": round(j.wall, 1),
            "peak_rss_gb": getattr(j, "maxrss_gb", None),
            "mem_cap_gb": h["mem"],
        })
        for a in h["assume"]:
            assumptions.add(a)
        for s in h["stub"]:
            assumptions.add("stub: " + s)
    ev = {
        "property_id": prop,
        "tier": tier,
        "seed": seed,
        "level": "model_checking",
        "coverage": {
            "evaluations": evaluations,
            "distinct_nontrivial": nontrivial,
            "rule": "evaluations = CBMC properties (assertions, panics, overflow, bounds, pointer and unwinding checks, reachability witnesses) decided by the SAT solver in this run over the real peppi code compiled from /repo; distinct_nontrivial = harnesses that discharged, whose reachability witnesses (kani::cover!) were all satisfied and whose symbolic input is wider than 0 bits. Each harness verdict covers every value of its symbolic inputs within the stated bound.",
            "samples": samples,
            "harnesses": len(jobs),
            "harnesses_discharged": sum(1 for j in jobs if j.status == "pass"),
            "solver": "CBMC 6.11 / CaDiCaL via Kani 0.68, unwinding assertions on",
            "solver_time_s": round(sum((j.stats.get("runtime_decision_procedure_s") or 0) for j in jobs), 2),
            "symex_time_s": round(sum((j.stats.get("runtime_symex_s") or 0) for j in jobs), 2),
            "repo_state": repo_state(),
            "known_findings_reported": known_hits,
            "exhaustive": False,
        },
        "assumptions": sorted(assumptions),
        "wall_s": round(wall, 1),
        "violations": violations,
    }
    os.makedirs(EVIDENCE, exist_ok=True)
    with open(os.path.join(EVIDENCE, prop + ".json"), "w") as f:
        json.dump(ev, f, indent=1)


# ----------------------------------------------------------------------------
# main
# ----------------------------------------------------------------------------

GLOBAL_ASSUMPTIONS = [
    "Kani 0.68 / CBMC 6.11 model of Rust semantics (MIR -> GOTO), CaDiCaL's verdicts",
    "columns/Results holding arrow2 values are core::mem::forget-ed at harness end (drop glue is not part of any property)",
    "a timeout, out-of-memory run, failed unwinding assertion or unsatisfied reachability witness makes the check exit 2 (inconclusive), never 0",
]


def setup():
    """Warm one target directory and clone it to the other slots."""
    prepare()
    hs = discover()
    snapshot("setup")
    first = next((h for h in hs if h["name"] == "c20_gte_lex"), hs[0])
    s0 = os.path.join(TARGET, "s0")
    t0 = time.time()
    # one complete run of the cheapest harness: builds every dependency in slot s0 and shows
    # that the whole pipeline (kani-compiler, goto-instrument, cbmc) works offline
    r = sh(kani_cmd(first, "s0", None), cwd=CRATE, env=env(),
           stdout=subprocess.PIPE, stderr=subprocess.STDOUT, text=True)
    print(r.stdout[-800:])
    # (in CBMC's plain output mode satisfied reachability witnesses count as "failures", so the
    # exit code is not the verdict: parse it the same way the checks do)
    checks = parse_plain(r.stdout)
    bad = [c for c in checks if c["category"] not in ("cover", "reachability_check") and c["status"] != "SUCCESS"]
    if not checks or bad or "VERIFICATION" not in r.stdout:
        print("setup: warm-up verification failed")
        return 1
    for i in range(1, MAX_JOBS):
        d = os.path.join(TARGET, "s%d" % i)
        if not os.path.exists(d):
            sh(["cp", "-a", s0, d])
    print("setup done in %.0fs" % (time.time() - t0))
    return 0


def main():
    ap = argparse.ArgumentParser()
    ap.add_argument("prop", nargs="?")
    ap.add_argument("--tier", default=os.environ.get("VERIF_TIER", "quick"))
    ap.add_argument("--only", default=None)
    ap.add_argument("--replay", default=None)
    ap.add_argument("--setup", action="store_true")
    ap.add_argument("--list", action="store_true")
    ap.add_argument("--no-evidence", action="store_true")
    a = ap.parse_args()
    if a.setup:
        sys.exit(setup())
    if a.replay:
        sys.exit(replay_file(a.replay))
    seed = int(os.environ.get("VERIF_SEED", "0") or 0)
    tier = a.tier if a.tier in ("quick", "thorough") else "quick"
    prepare()
    hs = discover()
    if a.list:
        for h in hs:
            print("%-46s %s mem=%d timeout=%d" % (h["qual"], h["props"], h["mem"], h["timeout"]))
        return 0
    sel = select(hs, a.prop, tier)
    snapshot(a.prop)
    if a.only:
        sel = [h for h in sel if a.only in h["name"]]
    if not sel:
        print("no harness registered for %s/%s" % (a.prop, tier))
        sys.exit(2)
    t0 = time.time()
    print("check %s tier=%s seed=%d: %d harnesses over /repo@%s" % (a.prop, tier, seed, len(sel), repo_state()), flush=True)
    jobs = [Job(h, a.prop) for h in sel]
    run_all(jobs, seed)
    known = load_known()
    violations, inconclusive, known_hits = 0, 0, []
    to_replay = []
    for j in jobs:
        if j.status == "pass":
            continue
        if j.status == "fail":
            unknown = []
            for c in j.fail_checks:
                k = is_known(j, c, known)
                if k:
                    line = "KNOWN-FINDING: property=%s %s (harness %s, check \"%s\")" % (a.prop, k["what"], j.h["name"], k["check"])
                    if line not in known_hits:
                        known_hits.append(line)
                        print(line)
                else:
                    unknown.append(c)
            if not unknown:
                continue
            j.fail_checks = unknown
            for c in unknown[:8]:
                loc = c.get("location", {})
                print("  failing check in %s: %s  [%s:%s in %s]" % (j.h["name"], c.get("description"), loc.get("file"), loc.get("line"), c.get("function")), flush=True)
            to_replay.append(j)
        else:
            inconclusive += 1
            extra = ""
            if j.status == "vacuous":
                extra = " unsatisfied witnesses: " + "; ".join(str(c.get("description")) for c in j.cover_bad)
            print("INCONCLUSIVE: harness %s ended as %s (log: %s)%s" % (j.h["name"], j.status, j.log, extra))
    # native replays, up to four side by side (each lane has its own scratch crate and target dirs)
    LANES = 1  # a playback run (CBMC --json-ui with traces) can take 30+ GB
    results = {}
    lane_lock = threading.Lock()
    free_lanes = list(range(LANES))
    def replay_worker(j):
        with lane_lock:
            lane = free_lanes.pop(0)
        try:
            results[j] = replay_job(j, lane)
        except Exception as e:  # pragma: no cover
            results[j] = (None, None)
        with lane_lock:
            free_lanes.append(lane)
    sem = threading.Semaphore(LANES)
    threads = []
    for j in to_replay:
        sem.acquire()
        t = threading.Thread(target=lambda jj=j: (replay_worker(jj), sem.release()), daemon=True)
        t.start()
        threads.append(t)
    for t in threads:
        t.join()
    for j in to_replay:
        path, reproduced = results.get(j, (None, None))
        if reproduced:
            violations += 1
            print("VIOLATION property=%s replay=%s" % (a.prop, path))
        else:
            inconclusive += 1
            print("INCONCLUSIVE: counterexample of %s %s natively (log: %s)" % (
                j.h["name"], "did not reproduce" if reproduced is False else "could not be replayed",
                os.path.join(LOGS, a.prop, j.h["name"] + ".replay.log")))
    wall = time.time() - t0
    if not a.no_evidence and not a.only:
        write_evidence(a.prop, tier, seed, jobs, wall, violations, known_hits, GLOBAL_ASSUMPTIONS)
    print("done %s: %d harnesses, %d discharged, %d violations, %d inconclusive, %.0fs" % (
        a.prop, len(jobs), sum(1 for j in jobs if j.status == "pass"), violations, inconclusive, wall))
    if violations:
        sys.exit(1)
    if inconclusive:
        sys.exit(2)
    sys.exit(0)


if __name__ == "__main__":
    main()
