#!/usr/bin/env python3
"""Regenerates /verif/MANIFEST.json from the tables below and the harness registry."""
import json
import os
import subprocess
import sys

sys.path.insert(0, os.path.dirname(os.path.abspath(__file__)))
import check  # noqa: E402

VERIF = check.VERIF

# property -> (level text, level note, technique, design section)
CLAIMED = {
    "C20": (
        "Bounded model checking with Kani/CBMC of the real Version::gte/lt (complete over all 2^40 version x threshold inputs), gate monotonicity (complete), Display->FromStr round trip and FromStr rejection against a reference scanner over all strings up to the stated length.",
        "Trusted: Kani's MIR->GOTO translation, CBMC, CaDiCaL. Strings longer than the bound and non-ASCII input are outside the claim.",
        "SAT-based bounded model checking of the real functions (Kani/CBMC), independent arithmetic oracle",
        "§5 C20"),
}

NOT_APPLICABLE = {
}

PENDING = "check not built yet in this round (see DESIGN.md §6a for the order of work)"


def hook_commits():
    out = subprocess.check_output(["git", "-C", "/repo", "log", "--format=%H %s"], text=True)
    return [l.split()[0] for l in out.splitlines() if "verif hook" in l]


def main():
    props = [json.loads(l) for l in open(os.path.join(VERIF, "properties.jsonl"))]
    checks = []
    na = []
    for p in props:
        pid = p["id"]
        if pid in CLAIMED:
            text, note, tech, ref = CLAIMED[pid]
            checks.append({
                "property_id": pid,
                "quick_cmd": "python3 tools/check.py %s --tier quick" % pid,
                "thorough_cmd": "python3 tools/check.py %s --tier thorough" % pid,
                "evidence_file": "/verif/evidence/%s.json" % pid,
                "replay_cmd_template": "python3 tools/check.py --replay {path}",
                "engine": "kani",
                "level_claimed": {"category": "model_checking", "text": text, "design_ref": ref},
                "level_note": note,
                "technique": tech,
            })
        else:
            na.append({"property_id": pid, "reason": NOT_APPLICABLE.get(pid, PENDING)})
    m = {
        "version": 1,
        "setup_cmd": "python3 tools/check.py --setup",
        "hooks": {
            "guard": "cfg(kani)",
            "enable": "`cargo kani` sets --cfg kani for every crate it compiles; the harness crate /verif/harness depends on /repo by path, so each check re-encodes /repo's working tree",
            "baseline_off_cmd": "cd /repo && cargo nextest run --workspace --no-fail-fast --offline",
            "source_commits": hook_commits(),
            "add_only": False,
        },
        "engines": [{
            "name": "kani",
            "path": "/verif/harness",
            "serves_properties": sorted(CLAIMED),
            "kind_free_text": "Kani 0.68 proof harnesses over the real peppi code, CBMC 6.11 + CaDiCaL, unwinding assertions on; driver tools/check.py",
        }],
        "checks": checks,
        "not_applicable": na,
        "notes": "hooks.add_only is false because of exactly one rewritten line: the debug-only `event_counts` increment in parse_event is wrapped in `#[cfg(not(kani))] let _ = {..};` (attributes on expression statements are not stable); everything else the hooks do is added code under #[cfg(kani)]. Exit code 2 of a check means inconclusive (timeout/OOM/vacuous/unreproduced counterexample) and is never a pass.",
    }
    with open(os.path.join(VERIF, "MANIFEST.json"), "w") as f:
        json.dump(m, f, indent=1)
    print("MANIFEST.json: %d checks, %d not applicable" % (len(checks), len(na)))


if __name__ == "__main__":
    main()
