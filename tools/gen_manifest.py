#!/usr/bin/env python3
"""Regenerates /verif/MANIFEST.json from the tables below and the harness registry."""
import json
import os
import subprocess
import sys

sys.path.insert(0, os.path.dirname(os.path.abspath(__file__)))
import check  # noqa: E402

VERIF = check.VERIF

# property -> (level text, level note, technique, design section)
T = "SAT-based bounded model checking of the real peppi functions (Kani 0.68 -> CBMC 6.11 -> CaDiCaL); symbolic inputs, independent oracle, unwinding assertions on, native replay of counterexamples"
NOTE = "Trusted: Kani's MIR->GOTO translation, CBMC, CaDiCaL, the hand-written oracles under /verif/spec. Every stub/cut is listed in the evidence file per harness. Exit 2 (timeout, OOM, vacuous harness, unreproduced counterexample) is never a pass."

CLAIMED = {
    "C01": ("Bounded model checking, decomposed: per event struct and per layout class read_push -> From -> write reproduces every payload bit and agrees with size() (sizes complete over all 2^24 versions); Frame::write emits the canonical event sequence for a one-row port-free game; slippi::write's declared raw length equals the bytes emitted (no end / end / doubled end, items); gecko block emission equals its size function; Game End size table complete; file header. Whole-file identity on symbolic bytes is out of reach and is NOT claimed.", NOTE + " Bounds: one record / one frame row; write side port-free; concrete version per layout class for the codec round trip.", T, "§5 C01"),
    "C03": ("Bounded model checking of the real generated readers: for every version (all 2^24 triples, partitioned by major for the larger structs) and every payload bit, each exposed field of Pre/Post/Start/Item/End equals the big-endian value at its hand-transcribed Slippi-spec offset, optional fields are present exactly from their introducing version, and exactly the spec size is consumed (also with trailing bytes and with exact-length payloads).", NOTE + " Bound: one record per harness. The 6-byte pre/post header stripping is checked in the C04 port harnesses.", T, "§5 C03"),
    "C04": ("Bounded model checking of parse_event sequences from a directly constructed parser state: port-free skeleton (rows per occurrence incl. rollbacks, start/end/item columns at spec offsets, item offsets) and one- and two-port states with and without Ice Climbers (presence bits, null padding of leader and follower incl. both absent, values in the right row and the right port, old framing without Frame Start/End).", NOTE + " Bounds: <= 3 frame occurrences, <= 2 items, one or two occupied ports (column sets held in typed stack objects), state built by a cfg(kani) constructor instead of parse_start; the 3.16 Ice Climbers and two-port variants are in the thorough tier.", T, "§5 C04"),
    "C05": ("Bounded model checking of game_start/game_end on raw blocks: every non-structural byte symbolic, every mapped field compared with the hand-transcribed spec offset, optional tails present iff the block is long enough, players listed per port type byte, raw block retained; Game End 1/2-byte blocks fully symbolic with exact Err condition, 6-byte blocks over a list of placement vectors.", NOTE + " Structural bytes (port types, UCF words, NUL positions, UID text, placement bytes) are assigned per harness variant: enumeration, not solver verdict, for those bytes. JSON text is outside.", T, "§5 C05"),
    "C06": ("Bounded model checking of panic freedom (Kani's default checks: panics, unwrap, index bounds, arithmetic overflow, slice ranges) of the reader units on arbitrary bytes and of parse_event on events inconsistent with the parser state (arbitrary frame id, port byte, follower flag, events the version lacks, splitter fields/sizes, truncated payloads).", NOTE + " Outside: stack overflow on nested metadata, ubjson::read_map (IndexMap/hashbrown and UTF-8 validation are intractable for CBMC), hangs beyond 'a successful step consumes >= 2 bytes', whole-file byte-level corruption.", T, "§5 C06"),
    "C07": ("Bounded model checking that every .slp reader unit handed a truncated input returns Err and leaves the columns untouched: per-struct readers (every cut length), game_end, game_start (lengths around every layout-class boundary: accepted iff a layout class or longer than the newest), header, expect_bytes (every stream length and content against the four sequences peppi expects), parse_event (every cut of an event), parse_payloads, parse_start over a fragmenting stream; read() end to end on a small file cut at concrete positions (last byte, inside the metadata key, at the event boundary before the Game End of a one-frame file; thorough: inside events).", NOTE + " .slpp truncation (tar/arrow2), metadata content and a symbolic cut offset over a whole file are outside (cut positions of the read-level harnesses are enumerated, not solver-chosen).", T, "§5 C07"),
    "C08": ("Bounded model checking: readers consume exactly the spec size and ignore any trailing bytes for every version incl. > 3.16 and other majors (same harnesses as C03); an unknown event declared in the payload table is a no-op on every column at four positions (before frames, inside a frame, between frames, after Game End, between splitter chunks); longer Game Start blocks are accepted; parse_start accepts every version >= 3.16.0 (all majors) whose known events are declared longer than the newest layout and keeps the declared sizes; an unknown event inside an open frame of a pre-3.0 Ice Climbers replay neither closes nor opens a frame.", NOTE + " The equality 'with vs without unknown events' follows from the no-op step by induction, which is argued, not solved.", T, "§5 C08"),
    "C09": ("Bounded model checking, complete over all 2^24 versions: assert_max_version is Err exactly above 3.16.0 (major, minor, patch order written out independently), and both writers return Err before producing any output exactly for those versions (record-and-stop sink / tar::Builder::new stub).", NOTE + " The .slpp writer harness is in the thorough tier.", T, "§5 C09"),
    "C10": ("Bounded model checking of the real slippi::read end to end on a small port-free 0.1 file: skip-frames path with seek and with hashed copy, doubled Game End, and the full path over unknown events all yield start/end equal to the file's raw blocks, zero frames, quirk flag, hash iff requested.", NOTE + " Concrete file skeleton (jump distance is concrete per harness: 4-6 bytes); std::io::copy is replaced by a plain read/write loop on the hashed skip path; metadata, .slpp and other versions' Game End sizes (covered by c01_game_end_size) are outside the read-level harnesses.", T, "§5 C10"),
    "C11": ("Bounded model checking: HashingReader feeds the hasher exactly the bytes each read returned for every fragmentation of the stream (recorder stub in place of Xxh3::update), seeking disables the digest, hashing off reports none; read() hashes the entire file in order on the skip and the full path.", NOTE + " XXH3 itself and the hex formatting are trusted (streaming contract); the hash surviving .slpp is outside.", T, "§5 C11"),
    "C12": ("Bounded model checking of the incremental API: parse_start and parse_event over a reader that splits every read in two at a solver-chosen point give the same columns; bytes_read accounting after every step incl. a 516-byte splitter block; frame count monotone.", NOTE + " Bounds: <= 2 frames, two-piece fragmentation of each read, port-free skeleton plus the one-port harnesses shared with C04.", T, "§5 C12"),
    "C13": ("Bounded model checking: for two rows and a solver-chosen row index every field of mutable and immutable transpose_one equals the column value at that index, optionals Some iff the column exists.", NOTE + " Immutable side: concrete version per layout class. Frame-level transpose (ports/items vectors) is exercised only in the thorough tier.", T, "§5 C13"),
    "C15": ("Bounded model checking of Frame::rollbacks against the definition (marked iff an earlier / later row has the same id; exactly one unmarked row per id) for every id sequence of length 0, 2, 4 (5 thorough) over six ids.", NOTE + " Longer sequences and ids above -118 are outside.", T, "§5 C15"),
    "C17": ("Same decomposition as C01 on the writer side: declared raw length equals emitted bytes (no end, one end, doubled end, items), gecko block emission equals gecko_codes_size for every actual size incl. completely full blocks, per-struct write/size agreement.", NOTE + " The whole-file fixed point write(read(write(g))) is not claimed.", T, "§5 C17"),
    "C19": ("Bounded model checking: fix_char equals the stated mapping and is idempotent for every Unicode scalar value (complete); for all contents of 10/16/31-byte fields the decoder is called exactly once with the bytes before the first NUL, None -> Err, Some -> that string; through the real game_start the byte range handed to the decoder for every port's name tag / netplay name / connect code starts at the spec offset and has the field's full width (fields without NUL, NUL in the last position, NUL at index 2).", NOTE + " encoding_rs's Shift-JIS tables are trusted (decoder replaced by a recorder); NUL positions in the game_start harnesses are three assigned patterns, not solver-chosen.", T, "§5 C19"),
    "C20": ("Bounded model checking: gte/lt equal lexicographic order for all 2^40 inputs, gates monotone (complete); parse_u8 on all 1-3 character components over a 13-symbol alphabet (quick); FromStr vs a reference scanner on `1.2.1` followed by one solver-chosen character (quick; two characters and the format version thorough) and for all strings of length 2-5 (thorough: 8-15 min each); format-version gate complete.", NOTE + " The Display->parse round trip is NOT decided: core::fmt under CBMC did not finish (60 min for all triples, 35 min for a single digit-count class); it is outside the claim.", T, "§5 C20"),
}

NOT_APPLICABLE = {
    "C02": "tar + Arrow IPC + LZ4/ZSTD FFI: no peppi-owned code with a symbolic dimension is reachable by CBMC on the .slpp path (DESIGN.md §5 C02)",
    "C14": "arrow2 StructArray construction/validation is intractable for CBMC even for one row of the smallest schema (40 min timeout, DESIGN.md §5 C14)",
    "C16": "serde_json::Map is an IndexMap over hashbrown (SIMD group probing never constant-folds) and core::str::from_utf8 branches on pointer alignment: read_map with one entry does not finish (25 min timeout, DESIGN.md §5 C16)",
    "C18": "archive layout, determinism and unknown-entry tolerance are concrete runs through tar/serde_json with nothing for a solver to quantify over (the format-version gate is decided inside C20)",
}

PENDING = "check not built yet in this round (see DESIGN.md §6a for the order of work)"


def hook_commits():
    out = subprocess.check_output(["git", "-C", "/repo", "log", "--format=%H %s"], text=True)
    return [l.split()[0] for l in out.splitlines() if "verif hook" in l]


def main():
    props = [json.loads(l) for l in open(os.path.join(VERIF, "properties.jsonl"))]
    checks = []
    na = []
    for p in props:
        pid = p["id"]
        if pid in CLAIMED:
            text, note, tech, ref = CLAIMED[pid]
            checks.append({
                "property_id": pid,
                "quick_cmd": "python3 tools/check.py %s --tier quick" % pid,
                "thorough_cmd": "python3 tools/check.py %s --tier thorough" % pid,
                "evidence_file": "/verif/evidence/%s.json" % pid,
                "replay_cmd_template": "python3 tools/check.py --replay {path}",
                "engine": "kani",
                "level_claimed": {"category": "model_checking", "text": text, "design_ref": ref},
                "level_note": note,
                "technique": tech,
            })
        else:
            na.append({"property_id": pid, "reason": NOT_APPLICABLE.get(pid, PENDING)})
    m = {
        "version": 1,
        "setup_cmd": "python3 tools/check.py --setup",
        "hooks": {
            "guard": "cfg(kani)",
            "enable": "`cargo kani` sets --cfg kani for every crate it compiles; the harness crate /verif/harness depends on /repo by path, so each check re-encodes /repo's working tree",
            "baseline_off_cmd": "cd /repo && cargo nextest run --workspace --no-fail-fast --offline",
            "source_commits": hook_commits(),
            "add_only": False,
        },
        "engines": [{
            "name": "kani",
            "path": "/verif/harness",
            "serves_properties": sorted(CLAIMED),
            "kind_free_text": "Kani 0.68 proof harnesses over the real peppi code, CBMC 6.11 + CaDiCaL, unwinding assertions on; driver tools/check.py",
        }],
        "checks": checks,
        "not_applicable": na,
        "notes": "hooks.add_only is false because of exactly one rewritten line: the debug-only `event_counts` increment in parse_event is wrapped in `#[cfg(not(kani))] let _ = {..};` (attributes on expression statements are not stable); everything else the hooks do is added code under #[cfg(kani)]. Exit code 2 of a check means inconclusive (timeout/OOM/vacuous/unreproduced counterexample) and is never a pass.",
    }
    with open(os.path.join(VERIF, "MANIFEST.json"), "w") as f:
        json.dump(m, f, indent=1)
    print("MANIFEST.json: %d checks, %d not applicable" % (len(checks), len(na)))


if __name__ == "__main__":
    main()
