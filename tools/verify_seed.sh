#!/bin/bash
# verify_seed.sh <name> <worktree>: confirm a seeded change in its scratch worktree and store it
# under /verif/seeded/<name>/ (patch.diff, demo, verify.log).  Nothing is applied to /repo.
set -u
name=$1; wt=$2
out=/verif/seeded/$name
mkdir -p $out
cd $wt || exit 2
git diff > $out/patch.diff
demo=$(git status --porcelain | grep '^??' | awk '{print $2}' | grep -v '^target' | head -5)
for d in $demo; do cp -r $d $out/; done
log=$out/verify.log
: > $log
echo "## with the change: full suite (only the demo target may fail)" >> $log
cargo test --offline --no-fail-fast 2>&1 | grep -E "^test result|Running|FAILED|failed|error(\[|:)" >> $log
echo "## without the change: demo only" >> $log
git apply -R $out/patch.diff && cargo test --offline --test seed_demo 2>&1 | grep -E "^test result|FAILED|error(\[|:)" >> $log
git apply $out/patch.diff
echo "## restored" >> $log
git status --short >> $log
cat $log
