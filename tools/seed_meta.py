#!/usr/bin/env python3
"""Writes /verif/seeded/<id>/meta.json from the table below and the trial logs next to it."""
import glob
import json
import os
import re

VERIF = os.path.dirname(os.path.dirname(os.path.abspath(__file__)))

SEEDS = {
    "C01": ("C01", "game::End::size(): the 6-byte Game End layout is gated on 3.14 instead of 3.13",
            "a 3.13.x replay whose Game End is doubled (quirk not recognised, 7 bytes lost on write) or missing (wrong payload-table entry)"),
    "C03": ("C03", "Post.animation_index gated on 3.12 instead of 3.11 at all seven generated sites (reader, writer, size, arrow)",
            "a replay of version exactly 3.11.x: the field is reported absent although its four bytes are in every post-frame payload; round trips stay clean because reader and writer share the wrong gate"),
    "C04": ("C04", "ParseState::frame_close pads the follower only up to leader.len() (and before the leader)",
            "an Ice Climbers port whose leader AND follower are both absent from the same frame occurrence"),
    "C05": ("C05", "player(): team shade and team colour reads swapped around the handicap read",
            "a game with teams enabled and a player whose shade byte differs from its team id"),
    "C06": ("C06", "ubjson reader accepts I/l length markers and casts the signed length to usize unchecked (capacity overflow panic)",
            "metadata with a negative i16/i32 string or key length"),
    "C07": ("C07", "read(): any error from parse_metadata is swallowed ('ignoring malformed metadata')",
            "a file truncated inside the metadata element: Ok(game) with metadata None instead of Err"),
    "C08": ("C08", "parse_event resets the split accumulator after every non-splitter event",
            "an unknown event between two Message Splitter chunks of a Gecko-code message"),
    "C09": ("C09", ".slpp writer: version guard moved into the `if frames.len() > 0` block",
            "a zero-frame game (e.g. read with skip_frames) newer than 3.16.0 written as .slpp"),
    "C10": ("C10", "skip-frames path parses the Gecko-code block before jumping but keeps the jump distance computed before",
            "skip_frames on any replay that carries Gecko codes (3.3+)"),
    "C11": ("C11", "HashingReader::read updates the hasher with the whole caller buffer instead of buf[..n]",
            "compute_hash with an underlying stream that returns short reads"),
    "C12": ("C12", "parse_game_start uses read() instead of read_exact() for the Game Start payload",
            "a stream that returns a short read inside the Game Start payload; bytes_read over-reports and the start block is zero-filled"),
    "C13": ("C13", "immutable Velocity::transpose_one: y reads the x column",
            "the finished representation's row view of an item whose velocity.x != velocity.y"),
    "C15": ("C15", "rollbacks_: early 'no rollbacks' exit when the seen-table size equals the row count",
            "an id sequence with a repeat whose length equals max_id + 124 (non-contiguous from -123), e.g. [-122, -122]"),
    "C17": ("C17", "gecko_codes_size derives the block count from (actual_size + 512) / 512",
            "Gecko codes whose actual size is an exact multiple of 512: declared raw length 517 bytes too large"),
    "C19": ("C19", "MeleeString::try_from strips trailing NULs (rposition) instead of cutting at the first NUL",
            "a name field with non-NUL bytes after its first NUL"),
    "C01b": ("C01", "frame_counts: for a port with a follower the pre/post event count ignores the leader's absent frames (2*len - absent(follower))",
             "an Ice Climbers port whose leader is absent from some frame: declared raw length too large"),
    "C03b": ("C03", "ItemMisc: third and fourth byte land in each other's column, in reader and writer alike",
             "a 3.2+ replay with an item whose misc bytes 2 and 3 differ; round trips stay clean"),
    "C04b": ("C04", "Frame Pre arm: the presence bit is pushed before the simulated frame close/open of pre-2.2 replays",
             "a pre-2.2 replay in which the character whose Frame Pre comes first in a frame was absent from the previous frame"),
    "C05b": ("C05", "game_start: per-port slices of the later layouts (UCF, name tag, netplay, UID) indexed by the player's rank among occupied ports instead of its port",
             "a Game Start of layout 1.0+ with a port gap (an empty port below an occupied one)"),
    "C06b": ("C06", "parse_event: after a final splitter chunk the wrapped code's declared size is looked up with unwrap()",
             "a final Message Splitter chunk whose wrapped-event byte names a code the payload table does not declare"),
    "C12b": ("C12", "parse_event: bytes_read is not advanced for non-final splitter chunks and advanced by all chunks at the final one",
             "inspecting bytes_read() between the chunks of a split message"),
    "C13b": ("C13", "mutable Frame::transpose_one: the newest frame's item slice is taken from (last offset, item.len())",
             "the in-progress view of the newest frame after its Frame End, when that frame has items"),
    "C17b": ("C17", "frame_counts: the follower's event count starts from the leader's present-frame count",
             "an Ice Climbers port whose leader has absences: declared raw length too small"),
    "C07b": ("C07", "io::expect_bytes rewritten as a zip over r.bytes(): a stream that ends early compares only the bytes it has and returns Ok",
             "a finished .slp cut exactly one byte before its end (the closing brace is the last read of the file): Ok(game) instead of Err"),
    "C08b": ("C08", "parse_start: new check_payload_sizes rejects a known event declared longer than the newest layout unless the replay's major version equals the newest known major",
             "a replay of major version 4+ whose known events carry trailing bytes"),
    "C09b": ("C09", "assert_max_version compares only major.minor (version.lt(3, 17))",
             "versions 3.16.1 ..= 3.16.255 written with either writer"),
    "C10b": ("C10", "skip-frames path with hashing: the skipped region is read in 8 KiB pieces without clamping the last read to the bytes still to skip",
             "skip_frames together with compute_hash on a replay whose frame region is not a multiple of 8192 bytes"),
    "C11b": ("C11", "skip-frames path hashes the skipped region only up to 1 MiB and seeks (dropping the digest) beyond that",
             "compute_hash + skip_frames on a replay whose frame region exceeds 1,048,576 bytes"),
    "C15b": ("C15", "rollbacks_: seen-table turned into a bitset that is toggled (^=) instead of set",
             "a frame id that occurs three or more times"),
    "C19b": ("C19", "player(): netplay name and connect code are decoded from the first 30 / 9 bytes of their 31 / 10-byte fields",
             "a netplay name or connect code that fills its whole field (no NUL before the last byte)"),
    "C20b": ("C20", "parse_u8 hand-rolled: up to three digits accumulated in a u16 and cast with `as u8`",
             "a version component in 256..=999, e.g. \"256.0.0\" parses as 0.0.0"),
    "C01c": ("C01", "gecko_codes writer: the last Message Splitter block's size field written as actual_size % 512",
             "Gecko codes whose total size is a non-zero exact multiple of 512: the last block's size field is 0 instead of 512 (2 bytes differ)"),
    "C03c": ("C03", "Item.damage read and written little-endian (reader and writer symmetric)",
             "an item whose 16-bit damage has two different bytes; round trips stay clean"),
    "C04c": ("C04", "frame close made lazy: Frame Start closes the previous frame for every version, Frame End no longer closes",
             "a 3.0+ replay in which some character has no events in the very last frame: its columns are one row short"),
    "C05c": ("C05", "player(): type byte decoded by an inlined match that knows Human and Cpu only",
             "a port whose type byte is 2 (demo): silently dropped from start.players"),
    "C06c": ("C06", "parse_payloads: size byte widened to usize and `size - 1` computed before the validity check",
             "payload-table size byte 0: subtraction overflow panic (debug) / capacity overflow (release)"),
    "C12c": ("C12", "parse_payloads / parse_game_start account only the bytes of the FIRST read of their payload (new read_fully helper returns n of the first read)",
             "a stream that delivers the payload table or the Game Start payload in more than one piece: bytes_read() under-reports"),
    "C13c": ("C13", "immutable PortData::transpose_one builds the follower's row from the leader's columns",
             "the finished representation's row view of an Ice Climbers port"),
    "C17c": ("C17", "ser::payload_sizes writes the Game End entry only when the game has a Game End",
             "a game with end == None: the written file cannot be read back (reader requires the entry)"),
    "C07c": ("C07", "read(): end of stream at an event boundary is treated as an in-progress replay (Ok with a partial game) whenever at least one frame exists, even if the header's raw length is non-zero",
             "a finished file cut exactly before an event code after the first frame, full parse (skip_frames off)"),
    "C08c": ("C08", "parse_event: before 3.0 every event that is not Frame Start/Pre/Post/Item closes the current frame - including unknown events",
             "a pre-3.0 replay with an unknown event inside an open frame, before some character's Frame Pre"),
    "C09c": ("C09", ".slp writer: the version guard moved below the header and payload-table writes",
             "a refused write (version above 3.16.0) leaves 38-63 bytes in the sink"),
    "C10c": ("C10", "skip-frames path looks one Game End length behind the last Game End and takes a 0x39 byte there for the first of two Game Ends",
             "a finished single-Game-End file whose byte at raw_len - 2*(1 + Game End size) is 0x39"),
    "C11c": ("C11", "format_hash prints the digest with {:x} instead of {:016x}",
             "a file whose XXH3-64 digest has a leading zero hex digit (1 file in 16)"),
    "C15c": ("C15", "rollbacks_: seen-table based on the first row's id instead of -123",
             "an id sequence that contains an id lower than its first id: panic"),
    "C19c": ("C19", "fix_char: the LEFT quotation marks U+2018 / U+201C mapped to ' and \" as well",
             "a name containing U+2018 or U+201C"),
    "C20c": ("C20", "FromStr for the Slippi version takes the first three components and never checks that the iterator is exhausted",
             "strings with a valid triple followed by another dot and anything, e.g. \"1.2.3.4\", \"1.2.3.\""),
    "C20": ("C20", "Version::lt rewritten as `self.0 < major || self.1 < minor`",
            "a version whose major is above the threshold's major and whose minor is below the threshold's minor, e.g. 4.0 vs (3, 7)"),
}


def main():
    for sid, (prop, what, needs) in sorted(SEEDS.items()):
        d = os.path.join(VERIF, "seeded", sid)
        if not os.path.isdir(d):
            continue
        trials = []
        for t in sorted(glob.glob(os.path.join(d, "trial_*.log"))):
            txt = open(t, errors="replace").read()
            cmd = re.search(r"^check (\S+) tier=(\S+)", txt, re.M)
            harn = re.findall(r"^\s+\[(\w+)\] (\S+)", txt, re.M)
            viol = re.findall(r"^VIOLATION property=(\S+) replay=(\S+)", txt, re.M)
            inconc = re.findall(r"^INCONCLUSIVE: (.*)$", txt, re.M)
            rc = re.search(r"exit code (\d+)", txt)
            trials.append({
                "log": os.path.relpath(t, VERIF),
                "check": cmd.group(1) if cmd else None,
                "tier": cmd.group(2) if cmd else None,
                "harness_verdicts": ["%s %s" % (n, s) for s, n in harn],
                "violations": [{"property": p, "replay": os.path.relpath(r, VERIF) if r.startswith(VERIF) else r} for p, r in viol],
                "inconclusive": inconc,
                "exit_code": int(rc.group(1)) if rc else None,
            })
        verify = os.path.join(d, "verify.log")
        meta = {
            "seed": sid,
            "breaks_property": prop,
            "change": what,
            "needs_to_manifest": needs,
            "files": sorted(os.path.basename(x) for x in glob.glob(os.path.join(d, "*")) if os.path.isfile(x)),
            "confirmed_in_scratch_worktree": "tools/verify_seed.sh (log: verify.log): with the change the 30 existing tests pass and the demo fails; without it the demo passes" if os.path.exists(verify) else None,
            "produced_by": "a fresh sub-agent given only the property text and a scratch worktree of /repo",
            "trials": trials,
            "caught": any(t["violations"] for t in trials),
        }
        with open(os.path.join(d, "meta.json"), "w") as f:
            json.dump(meta, f, indent=1)
        print(sid, "caught" if meta["caught"] else "not caught (yet)", [t["check"] for t in trials])


if __name__ == "__main__":
    main()
