#!/usr/bin/env python3
"""Writes /verif/seeded/<id>/meta.json from the table below and the trial logs next to it."""
import glob
import json
import os
import re

VERIF = os.path.dirname(os.path.dirname(os.path.abspath(__file__)))

SEEDS = {
    "C01": ("C01", "game::End::size(): the 6-byte Game End layout is gated on 3.14 instead of 3.13",
            "a 3.13.x replay whose Game End is doubled (quirk not recognised, 7 bytes lost on write) or missing (wrong payload-table entry)"),
    "C03": ("C03", "Post.animation_index gated on 3.12 instead of 3.11 at all seven generated sites (reader, writer, size, arrow)",
            "a replay of version exactly 3.11.x: the field is reported absent although its four bytes are in every post-frame payload; round trips stay clean because reader and writer share the wrong gate"),
    "C04": ("C04", "ParseState::frame_close pads the follower only up to leader.len() (and before the leader)",
            "an Ice Climbers port whose leader AND follower are both absent from the same frame occurrence"),
    "C05": ("C05", "player(): team shade and team colour reads swapped around the handicap read",
            "a game with teams enabled and a player whose shade byte differs from its team id"),
    "C06": ("C06", "ubjson reader accepts I/l length markers and casts the signed length to usize unchecked (capacity overflow panic)",
            "metadata with a negative i16/i32 string or key length"),
    "C07": ("C07", "read(): any error from parse_metadata is swallowed ('ignoring malformed metadata')",
            "a file truncated inside the metadata element: Ok(game) with metadata None instead of Err"),
    "C08": ("C08", "parse_event resets the split accumulator after every non-splitter event",
            "an unknown event between two Message Splitter chunks of a Gecko-code message"),
    "C09": ("C09", ".slpp writer: version guard moved into the `if frames.len() > 0` block",
            "a zero-frame game (e.g. read with skip_frames) newer than 3.16.0 written as .slpp"),
    "C10": ("C10", "skip-frames path parses the Gecko-code block before jumping but keeps the jump distance computed before",
            "skip_frames on any replay that carries Gecko codes (3.3+)"),
    "C11": ("C11", "HashingReader::read updates the hasher with the whole caller buffer instead of buf[..n]",
            "compute_hash with an underlying stream that returns short reads"),
    "C12": ("C12", "parse_game_start uses read() instead of read_exact() for the Game Start payload",
            "a stream that returns a short read inside the Game Start payload; bytes_read over-reports and the start block is zero-filled"),
    "C13": ("C13", "immutable Velocity::transpose_one: y reads the x column",
            "the finished representation's row view of an item whose velocity.x != velocity.y"),
    "C15": ("C15", "rollbacks_: early 'no rollbacks' exit when the seen-table size equals the row count",
            "an id sequence with a repeat whose length equals max_id + 124 (non-contiguous from -123), e.g. [-122, -122]"),
    "C17": ("C17", "gecko_codes_size derives the block count from (actual_size + 512) / 512",
            "Gecko codes whose actual size is an exact multiple of 512: declared raw length 517 bytes too large"),
    "C19": ("C19", "MeleeString::try_from strips trailing NULs (rposition) instead of cutting at the first NUL",
            "a name field with non-NUL bytes after its first NUL"),
    "C20": ("C20", "Version::lt rewritten as `self.0 < major || self.1 < minor`",
            "a version whose major is above the threshold's major and whose minor is below the threshold's minor, e.g. 4.0 vs (3, 7)"),
}


def main():
    for sid, (prop, what, needs) in sorted(SEEDS.items()):
        d = os.path.join(VERIF, "seeded", sid)
        if not os.path.isdir(d):
            continue
        trials = []
        for t in sorted(glob.glob(os.path.join(d, "trial_*.log"))):
            txt = open(t, errors="replace").read()
            cmd = re.search(r"^check (\S+) tier=(\S+)", txt, re.M)
            harn = re.findall(r"^\s+\[(\w+)\] (\S+)", txt, re.M)
            viol = re.findall(r"^VIOLATION property=(\S+) replay=(\S+)", txt, re.M)
            inconc = re.findall(r"^INCONCLUSIVE: (.*)$", txt, re.M)
            rc = re.search(r"exit code (\d+)", txt)
            trials.append({
                "log": os.path.relpath(t, VERIF),
                "check": cmd.group(1) if cmd else None,
                "tier": cmd.group(2) if cmd else None,
                "harness_verdicts": ["%s %s" % (n, s) for s, n in harn],
                "violations": [{"property": p, "replay": os.path.relpath(r, VERIF) if r.startswith(VERIF) else r} for p, r in viol],
                "inconclusive": inconc,
                "exit_code": int(rc.group(1)) if rc else None,
            })
        verify = os.path.join(d, "verify.log")
        meta = {
            "seed": sid,
            "breaks_property": prop,
            "change": what,
            "needs_to_manifest": needs,
            "files": sorted(os.path.basename(x) for x in glob.glob(os.path.join(d, "*")) if os.path.isfile(x)),
            "confirmed_in_scratch_worktree": "tools/verify_seed.sh (log: verify.log): with the change the 30 existing tests pass and the demo fails; without it the demo passes" if os.path.exists(verify) else None,
            "produced_by": "a fresh sub-agent given only the property text and a scratch worktree of /repo",
            "trials": trials,
            "caught": any(t["violations"] for t in trials),
        }
        with open(os.path.join(d, "meta.json"), "w") as f:
            json.dump(meta, f, indent=1)
        print(sid, "caught" if meta["caught"] else "not caught (yet)", [t["check"] for t in trials])


if __name__ == "__main__":
    main()
